#!/bin/sh
# usage: ./check.sh <property-id> [quick|thorough]
# Re-loads /repo's current working tree (build tag verif), regenerates every obligation of the
# property's core set, discharges them with z3/cvc5, writes evidence/<id>.json.
cd /verif || exit 2
export GOFLAGS=-mod=vendor GOPROXY=off GOSUMDB=off GOTOOLCHAIN=local
if [ ! -x bin/govc ] || [ -n "$(find cmd -newer bin/govc -name '*.go' 2>/dev/null | head -1)" ]; then
  go build -o bin/govc ./cmd/govc || exit 2
fi
prop="$1"; tier="${2:-quick}"
[ -n "$VERIF_TIER" ] && [ -z "$2" ] && tier="$VERIF_TIER"
rc=0
./bin/govc check -prop "$prop" -tier "$tier" || rc=$?
if [ "$tier" = "thorough" ] && [ -x "tools/thorough_$prop.sh" ]; then
  "tools/thorough_$prop.sh" || rc=1
fi
exit $rc
