package main

// Bounded stand-ins (thorough tier only). A stand-in is a Go test file kept in /verif/bounded/<prop>__<name>.go.txt that is
// injected into a package of /repo with `go test -overlay` (nothing is written to the repository) and exercises a function
// whose contract is ASSUMED by the proofs, against an independent oracle, on a stated finite set of inputs. Its result is
// reported under coverage.bounded_standins, labelled bounded, and is never counted among the discharged obligations. A
// failing case is a violation with the failing input (it was observed on the real code).
//
// Header lines of a stand-in file:
//   // standin-for: <the assumed contract(s) it exercises>
//   // dir: <package directory relative to /repo>
//   // run: <test name>
//   // bound: <the finite input set>

import (
	"encoding/json"
	"fmt"
	"os"
	"os/exec"
	"path/filepath"
	"regexp"
	"strings"
	"time"
)

type boundedResult struct {
	Name         string  `json:"name"`
	StandinFor   string  `json:"standin_for"`
	Package      string  `json:"package_dir"`
	Bound        string  `json:"bound"`
	Cases        int     `json:"cases_run"`
	Status       string  `json:"status"` // passed, failed, error
	FailingInput string  `json:"failing_input,omitempty"`
	Output       string  `json:"output_tail,omitempty"`
	Secs         float64 `json:"secs"`
	Label        string  `json:"label"`
}

func runBounded(repo, verif, prop string) []boundedResult {
	files, _ := filepath.Glob(filepath.Join(verif, "bounded", prop+"__*.go.txt"))
	var out []boundedResult
	for _, f := range files {
		b, err := os.ReadFile(f)
		if err != nil {
			continue
		}
		r := boundedResult{Name: strings.TrimSuffix(filepath.Base(f), ".go.txt"), Label: "bounded stand-in: not a proof, not counted as discharged"}
		run := ""
		for _, line := range strings.Split(string(b), "\n") {
			for _, kv := range [][2]string{{"// standin-for:", "for"}, {"// dir:", "dir"}, {"// run:", "run"}, {"// bound:", "bound"}} {
				if strings.HasPrefix(line, kv[0]) {
					v := strings.TrimSpace(strings.TrimPrefix(line, kv[0]))
					switch kv[1] {
					case "for":
						r.StandinFor = v
					case "dir":
						r.Package = v
					case "run":
						run = v
					case "bound":
						r.Bound = v
					}
				}
			}
		}
		if r.Package == "" || run == "" {
			r.Status = "error"
			r.Output = "stand-in file lacks dir/run header"
			out = append(out, r)
			continue
		}
		home, _ := os.UserHomeDir()
		tmp, err := os.MkdirTemp(filepath.Join(home), ".govc-bounded-")
		if err != nil {
			tmp, _ = os.MkdirTemp("", "govc-bounded-")
		}
		target := filepath.Join(repo, r.Package, "zz_bounded_"+r.Name+"_test.go")
		src := filepath.Join(tmp, "standin_test.go")
		os.WriteFile(src, b, 0o644)
		ov, _ := json.Marshal(map[string]interface{}{"Replace": map[string]string{target: src}})
		ovf := filepath.Join(tmp, "overlay.json")
		os.WriteFile(ovf, ov, 0o644)
		pkgArg := "./" + r.Package
		if r.Package == "." {
			pkgArg = "."
		}
		cmd := exec.Command("go", "test", "-overlay", ovf, "-vet=off", "-v", "-count=1", "-timeout", "900s", "-run", "^"+run+"$", pkgArg)
		cmd.Dir = repo
		cmd.Env = append(os.Environ(), "GOFLAGS=-mod=mod", "GOPROXY=off", "GOSUMDB=off", "GOTOOLCHAIN=local")
		start := time.Now()
		ob, _ := cmd.CombinedOutput()
		r.Secs = round3(time.Since(start).Seconds())
		os.RemoveAll(tmp)
		text := string(ob)
		if m := regexp.MustCompile(`BOUNDED cases=(\d+)`).FindStringSubmatch(text); m != nil {
			fmt.Sscan(m[1], &r.Cases)
		}
		tail := text
		if len(tail) > 1200 {
			tail = tail[len(tail)-1200:]
		}
		switch {
		case strings.Contains(text, "BOUNDED-FAIL"):
			r.Status = "failed"
			if m := regexp.MustCompile(`BOUNDED-FAIL (.*)`).FindStringSubmatch(text); m != nil {
				r.FailingInput = m[1]
			}
			r.Output = tail
		case cmd.ProcessState != nil && cmd.ProcessState.ExitCode() == 0 && r.Cases > 0:
			r.Status = "passed"
		default:
			r.Status = "error"
			r.Output = tail
		}
		out = append(out, r)
	}
	return out
}
