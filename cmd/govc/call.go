package main

import (
	"fmt"
	"go/token"
	"go/types"
	"strings"

	"golang.org/x/tools/go/ssa"
)

func (g *Gen) call(site ssa.Value, cc *ssa.CallCommon, pos token.Pos) *Val {
	var resT types.Type = cc.Signature().Results()
	if cc.Signature().Results().Len() == 1 {
		resT = cc.Signature().Results().At(0).Type()
	}
	if cc.IsInvoke() {
		ct := g.eng.contractForInvoke(cc)
		recv := g.val(cc.Value)
		args := []*Val{recv}
		for _, a := range cc.Args {
			args = append(args, g.val(a))
		}
		key := invokeKey(cc)
		if ct == nil {
			return g.havocCall(key, resT, pos)
		}
		names := append([]string{"self"}, sigParamNames(cc.Signature())...)
		return g.applyContract(ct, names, args, cc.Signature(), resT, pos)
	}
	if b, ok := cc.Value.(*ssa.Builtin); ok {
		return g.builtin(b, cc, resT, pos)
	}
	callee := cc.StaticCallee()
	if callee == nil {
		// call of a function value
		if v := g.eng.ghostDynCall(g, cc, pos); v != nil {
			return v
		}
		return g.havocCall("dynamic:"+cc.Value.Name(), resT, pos)
	}
	var args []*Val
	for _, a := range cc.Args {
		args = append(args, g.val(a))
	}
	if v, handled := g.eng.specialCall(g, callee, cc, args, resT, pos); handled {
		return v
	}
	ct := g.eng.contractForView(callee, g.view)
	if ct == nil {
		return g.havocCall(funcKey(callee), resT, pos)
	}
	names := g.eng.paramNamesOf(callee)
	// closures called directly: bind free variables too
	if mc, ok := cc.Value.(*ssa.MakeClosure); ok {
		for i, fv := range callee.FreeVars {
			names = append(names, fv.Name())
			args = append(args, g.val(mc.Bindings[i]))
		}
	}
	return g.applyContract(ct, names, args, callee.Signature, resT, pos)
}

func sigParamNames(sig *types.Signature) []string {
	var out []string
	for i := 0; i < sig.Params().Len(); i++ {
		n := sig.Params().At(i).Name()
		if n == "" || n == "_" {
			n = fmt.Sprintf("arg%d", i)
		}
		out = append(out, n)
	}
	return out
}

func invokeKey(cc *ssa.CallCommon) string {
	rt := cc.Value.Type()
	k := typeKey(rt)
	if k == "" {
		k = "iface"
	}
	return k + "." + cc.Method.Name()
}

func funcKey(fn *ssa.Function) string {
	if fn.Parent() != nil {
		// closure: Parent$k
		return funcKey(fn.Parent()) + strings.TrimPrefix(fn.Name(), fn.Parent().Name())
	}
	pkg := ""
	if fn.Pkg != nil {
		pkg = fn.Pkg.Pkg.Path()
	} else if fn.Object() != nil && fn.Object().Pkg() != nil {
		pkg = fn.Object().Pkg().Path()
	}
	if recv := fn.Signature.Recv(); recv != nil {
		t := recv.Type()
		if p, ok := t.(*types.Pointer); ok {
			t = p.Elem()
		}
		if n, ok := t.(*types.Named); ok {
			if n.Obj().Pkg() != nil {
				pkg = n.Obj().Pkg().Path()
			}
			return pkg + "." + n.Obj().Name() + "." + fn.Name()
		}
		if a, ok := t.(*types.Alias); ok {
			if n, ok := types.Unalias(a).(*types.Named); ok {
				return n.Obj().Pkg().Path() + "." + n.Obj().Name() + "." + fn.Name()
			}
		}
	}
	return pkg + "." + fn.Name()
}

// havocCall: a callee without contract may do anything to the heap.
func (g *Gen) havocCall(key string, resT types.Type, pos token.Pos) *Val {
	g.havocCallees[key] = true
	for _, s := range g.sorts {
		g.heap[s] = g.freshConst("Hhavoc"+s, g.heapSort(s))
	}
	n := g.freshConst("nextobj_h", "Int")
	g.assumeRaw(fmt.Sprintf("(>= %s %s)", n, g.nextobj))
	g.nextobj = n
	for _, k := range sortedKeys(g.ghost) {
		g.ghost[k] = g.freshConst("gh_"+k, g.ghostSortOf(k))
	}
	v := g.havocVal(resT, "r_"+sanitize(key))
	g.assumeRaw(g.wellFormedResult(v))
	return v
}

func (g *Gen) wellFormedResult(v *Val) string {
	if v.Tuple != nil {
		var ps []string
		for _, t := range v.Tuple {
			ps = append(ps, g.wellFormedResult(t))
		}
		return and(ps...)
	}
	return g.wellFormed(v, g.nextobj, true)
}

// applyContract: assert pre, havoc the footprint, assume post.
func (g *Gen) applyContract(ct *Contract, names []string, args []*Val, sig *types.Signature, resT types.Type, pos token.Pos) *Val {
	if ct.Assumed != "" {
		g.assumedUsed[ct.Key+" ("+ct.Assumed+")"] = true
	} else if strings.HasPrefix(ct.Key, repoMod) {
		if g.calledKeys == nil {
			g.calledKeys = map[string]bool{}
		}
		g.calledKeys[ct.Key] = true
	}
	env := &Env{g: g, vars: map[string]*Val{}, heap: copyMap(g.heap), old: copyMap(g.heap), nextobj: g.nextobj, oldNextobj: g.nextobj,
		ghost: copyMap(g.ghost), oldGhost: copyMap(g.ghost), pkg: g.eng.pkgOfKey(ct.Key)}
	// variadic: extra args were already packed into a slice by the SSA builder
	for i, n := range names {
		if i < len(args) {
			env.vars[n] = args[i]
		}
	}
	// pointer params must be non-nil unless nilable
	for i, n := range names {
		if i >= len(args) || args[i].T == nil {
			continue
		}
		if _, isPtr := args[i].T.Underlying().(*types.Pointer); isPtr && !ct.Nilable[n] && args[i].Sort == "Ptr" && !isLiteralObj(args[i].S[0]) {
			g.oblige("pre.nil", fmt.Sprintf("(>= %s 1)", args[i].S[0]), pos, fmt.Sprintf("call %s: argument %s is not nil", shortKey(ct.Key), n), nil)
		}
	}
	for _, l := range ct.Lets {
		if v := g.specVal(env, l.E); v != nil {
			env.vars[l.Name] = v
		}
	}
	env.goal = true
	for _, c := range ct.Requires {
		t := g.specBool(env, c.E)
		g.oblige("pre", t, pos, fmt.Sprintf("precondition of %s: %s", shortKey(ct.Key), c.Text), c.Props)
	}
	// precondition schemas: must hold for all parameter values
	for _, fd := range ct.Facts {
		sub := env.clone()
		var decls []string
		for _, bv := range fd.Vars {
			name := g.fresh("q_" + bv.Name)
			sub.vars[bv.Name] = scalar(sortOfSpecName(bv.Sort), name, nil)
			decls = append(decls, fmt.Sprintf("(%s %s)", name, sortOfSpecName(bv.Sort)))
		}
		markBody := len(g.lines)
		body := g.specBool(sub, fd.C.E)
		// typing facts emitted while evaluating the schema body mention its bound variables: they belong to the
		// (skolemised) obligation, not to the unit's line list
		var bodySide []string
		if len(g.lines) > markBody {
			bodySide = append(bodySide, g.lines[markBody:]...)
			g.lines = g.lines[:markBody]
		}
		o := g.oblige("pre", fmt.Sprintf("(forall (%s) %s)", strings.Join(decls, " "), body), pos, fmt.Sprintf("precondition schema %s of %s", fd.Name, shortKey(ct.Key)), fd.C.Props)
		if o != nil {
			defer func(o *Obligation, side []string) { o.Extra = append(o.Extra, side...) }(o, bodySide)
			// checked in skolemised form: the bound variables become constants of this obligation, and the caller's own
			// precondition schemas with the same number of variables are instantiated at them (schemas are passed along)
			reach := g.reach
			o.Goal = fmt.Sprintf("(=> %s %s)", reach, body)
			var skNames []string
			for _, bv := range fd.Vars {
				nm := sub.vars[bv.Name].S[0]
				skNames = append(skNames, nm)
				o.Extra = append(o.Extra, fmt.Sprintf("(declare-const %s %s)", nm, sortOfSpecName(bv.Sort)))
			}
			if pd := g.passDirective(fd.Name); pd != nil && len(pd.PassVars) == len(fd.Vars) {
				// explicit justification: OWNFACT(e1, ..) with the callee's bound variables standing for the skolems
				penv := g.pointEnv(g.curCall)
				for i, vn := range pd.PassVars {
					penv.vars[vn] = scalar(sortOfSpecName(fd.Vars[i].Sort), skNames[i], nil)
				}
				var own *FactDef
				for _, f := range g.ct.Facts {
					if f.Name == pd.C.E.Args[0].Tok {
						own = f
					}
				}
				if own != nil && len(pd.C.E.Args)-1 == len(own.Vars) {
					entry := g.entryEnv()
					mark := len(g.lines)
					okArgs := true
					for i, bv := range own.Vars {
						av := g.specVal(penv, pd.C.E.Args[1+i])
						if av == nil {
							okArgs = false
							break
						}
						entry.vars[bv.Name] = scalar(sortOfSpecName(bv.Sort), av.S[0], nil)
					}
					if okArgs {
						inst := g.specBool(entry, own.C.E)
						if len(g.lines) > mark {
							o.Extra = append(o.Extra, g.lines[mark:]...)
							g.lines = g.lines[:mark]
							g.lineTag = g.lineTag[:mark]
						}
						o.Extra = append(o.Extra, "(assert "+inst+")")
					}
				} else {
					g.bindFail("pass: unknown fact or wrong number of arguments: " + pd.C.Text)
				}
			}
			for _, own := range g.ct.Facts {
				if len(own.Vars) != len(fd.Vars) {
					continue
				}
				entry := g.entryEnv()
				okSorts := true
				for i, bv := range own.Vars {
					if sortOfSpecName(bv.Sort) != sortOfSpecName(fd.Vars[i].Sort) {
						okSorts = false
					}
					entry.vars[bv.Name] = scalar(sortOfSpecName(bv.Sort), skNames[i], nil)
				}
				if !okSorts {
					continue
				}
				mark := len(g.lines)
				inst := g.specBool(entry, own.C.E)
				// side facts emitted while evaluating mention the obligation-local constants: move them into the obligation
				if len(g.lines) > mark {
					o.Extra = append(o.Extra, g.lines[mark:]...)
					g.lines = g.lines[:mark]
				}
				o.Extra = append(o.Extra, "(assert "+inst+")")
			}
		}
	}
	// footprint havoc
	if ct.ModAny {
		for _, s := range g.sorts {
			g.heap[s] = g.freshConst("Hany"+s, g.heapSort(s))
		}
	} else {
		for _, s := range ct.ModSorts {
			if _, ok := g.heap[s]; ok {
				g.heap[s] = g.freshConst("Hany"+s, g.heapSort(s))
			}
		}
		for _, m := range ct.Modifies {
			if g.eng.ghostModifies(g, env, m) {
				continue
			}
			for _, r := range g.footprint(env, m.E) {
				g.havocRegion(r)
			}
		}
	}
	// fresh objects claimed by the postcondition
	var exactFresh []*Expr
	otherFresh := false
	for _, c := range ct.Ensures {
		if c.E.Op == "call" && c.E.Args[0].Op == "id" && c.E.Args[0].Tok == "fresh" {
			exactFresh = append(exactFresh, c.E.Args[1])
		} else if strings.Contains(c.Text, "fresh(") {
			otherFresh = true
		}
	}
	preNext := g.nextobj
	if otherFresh || ct.ModAny || len(ct.ModSorts) > 0 {
		// the callee may allocate an unknown number of objects: new objects have arbitrary rows
		nn := g.freshConst("nextobj_c", "Int")
		g.assumeRaw(fmt.Sprintf("(>= %s %s)", nn, preNext))
		for _, s := range g.sorts {
			nh := g.freshConst("Hpost"+s, g.heapSort(s))
			g.assumeRaw(fmt.Sprintf("(forall ((o Int)) (! (=> (< o %s) (= (select %s o) (select %s o))) :pattern ((select %s o))))", preNext, nh, g.heap[s], nh))
			g.heap[s] = nh
		}
		g.nextobj = nn
	} else if len(exactFresh) > 0 {
		g.nextobj = g.def("nextobj", "Int", fmt.Sprintf("(+ %s %d)", preNext, len(exactFresh)))
	}
	g.eng.ghostCallEffect(g, ct, env)
	// results
	res := g.havocVal(resT, "r_"+sanitize(shortKey(ct.Key)))
	// results the contract declares fresh (top-level conjunct fresh(result..)) start at offset 0: written literally so
	// that quantified facts about their elements have arithmetic-free triggers
	{
		freshNames := map[string]bool{}
		var conj func(e *Expr)
		conj = func(e *Expr) {
			if e.Op == "bin" && e.Tok == "&&" {
				conj(e.Args[0])
				conj(e.Args[1])
				return
			}
			if e.Op == "call" && e.Args[0].Op == "id" && e.Args[0].Tok == "fresh" && len(e.Args) == 2 && e.Args[1].Op == "id" {
				freshNames[e.Args[1].Tok] = true
			}
		}
		for _, c := range ct.Ensures {
			conj(c.E)
		}
		zero := func(v *Val) {
			if v != nil && (v.Sort == "Slice" || v.Sort == "Ptr") && len(v.S) >= 2 {
				v.S[1] = "0"
			}
		}
		if res.Tuple != nil {
			for i, t := range res.Tuple {
				n := sig.Results().At(i).Name()
				if freshNames[fmt.Sprintf("result%d", i)] || (n != "" && freshNames[n]) {
					zero(t)
				}
			}
		} else if sig.Results().Len() == 1 {
			n := sig.Results().At(0).Name()
			if freshNames["result"] || freshNames["result0"] || (n != "" && freshNames[n]) {
				zero(res)
			}
		}
	}
	g.assume(g.wellFormedResult(res))
	post := env.clone()
	post.goal = false
	post.nextobj = g.nextobj
	post.ghost = g.ghost
	if res.Tuple != nil {
		for i, t := range res.Tuple {
			post.vars[fmt.Sprintf("result%d", i)] = t
			if n := sig.Results().At(i).Name(); n != "" && n != "_" {
				post.vars[n] = t
			}
			if isErrorType(sig.Results().At(i).Type()) {
				if _, taken := post.vars["err"]; !taken {
					post.vars["err"] = t
				}
			}
		}
	} else if sig.Results().Len() == 1 {
		if _, isParam := env.vars["result"]; !isParam {
			post.vars["result"] = res
		}
		post.vars["result0"] = res
		if isErrorType(sig.Results().At(0).Type()) {
			post.vars["err"] = res
		}
		if n := sig.Results().At(0).Name(); n != "" && n != "_" {
			post.vars[n] = res
		}
	}
	if !(otherFresh || ct.ModAny || len(ct.ModSorts) > 0) {
		// exactly known fresh objects: object ids preNext, preNext+1, ...; their rows are arbitrary
		for i, fe := range exactFresh {
			post.heap = g.heap
			fv := g.specVal(post, fe)
			if fv == nil || len(fv.S) == 0 {
				continue
			}
			g.assume(fmt.Sprintf("(= %s (+ %s %d))", fv.S[0], preNext, i))
			for _, s := range g.sorts {
				row := g.freshConst("freshrow"+s, fmt.Sprintf("(Array Int %s)", s))
				g.heap[s] = g.def("H"+s, g.heapSort(s), fmt.Sprintf("(store %s (+ %s %d) %s)", g.heap[s], preNext, i, row))
			}
		}
	}
	post.heap = g.heap
	for _, c := range ct.Ensures {
		t := g.specBool(post, c.E)
		g.assume(t)
	}
	return res
}

func shortKey(k string) string {
	if i := strings.LastIndex(k, "/"); i >= 0 {
		return k[i+1:]
	}
	return k
}

// havocRegion replaces the cells of a region by arbitrary values (in every heap sort).
func (g *Gen) havocRegion(r region) {
	for _, s := range g.sorts {
		if !regionHasSort(r, s) {
			continue
		}
		if r.n >= 0 && r.n <= 64 {
			row := fmt.Sprintf("(select %s %s)", g.heap[s], r.obj)
			for k := 0; k < r.n; k++ {
				c := g.freshConst("hv"+s, s)
				row = fmt.Sprintf("(store %s %s %s)", row, addOff(r.lo, k), c)
			}
			if r.n > 0 {
				g.heap[s] = g.def("H"+s, g.heapSort(s), fmt.Sprintf("(store %s %s %s)", g.heap[s], r.obj, row))
			}
			continue
		}
		row := g.freshConst("hvrow"+s, fmt.Sprintf("(Array Int %s)", s))
		g.assumeRaw(fmt.Sprintf("(forall ((k Int)) (! (=> (not (and (<= %s k) (< k %s))) (= (select %s k) (select (select %s %s) k))) :pattern ((select %s k))))", r.lo, r.hi, row, g.heap[s], r.obj, row))
		g.heap[s] = g.def("H"+s, g.heapSort(s), fmt.Sprintf("(store %s %s %s)", g.heap[s], r.obj, row))
	}
}

// ---------- builtins ----------

func (g *Gen) builtin(b *ssa.Builtin, cc *ssa.CallCommon, resT types.Type, pos token.Pos) *Val {
	switch b.Name() {
	case "len", "cap":
		a := g.val(cc.Args[0])
		switch u := cc.Args[0].Type().Underlying().(type) {
		case *types.Slice:
			if b.Name() == "len" {
				return scalar("Int", a.S[2], resT)
			}
			return scalar("Int", a.S[3], resT)
		case *types.Array:
			return scalar("Int", fmt.Sprint(u.Len()), resT)
		case *types.Pointer:
			return scalar("Int", fmt.Sprint(u.Elem().Underlying().(*types.Array).Len()), resT)
		case *types.Basic:
			g.use("str")
			return scalar("Int", fmt.Sprintf("(strlen %s)", a.S[0]), resT)
		case *types.Map:
			return g.eng.onMapLen(g, cc.Args[0], a, resT)
		case *types.Chan:
			return g.havocVal(resT, "chanlen")
		}
	case "append":
		return g.appendOp(cc, resT, pos)
	case "copy":
		return g.copyOp(cc, resT, pos)
	case "min", "max":
		a, c := g.val(cc.Args[0]), g.val(cc.Args[1])
		op := "<="
		if b.Name() == "max" {
			op = ">="
		}
		return scalar("Int", fmt.Sprintf("(ite (%s %s %s) %s %s)", op, a.S[0], c.S[0], a.S[0], c.S[0]), resT)
	case "close":
		g.eng.onClose(g, cc, pos)
		return &Val{T: resT}
	case "print", "println":
		return &Val{T: resT}
	}
	g.errs = append(g.errs, "unsupported builtin "+b.Name())
	return g.havocCall("builtin."+b.Name(), resT, pos)
}

// appendOp models append(s, elems...) : either in place (enough capacity) or reallocation.
// Sound abstraction: the result is a slice of length len(s)+len(t) whose first len(s) elements equal s's
// and the rest equal t's; if capacity suffices the backing object is shared and its cells beyond
// len(s) are overwritten, otherwise the result is a fresh object.
func (g *Gen) appendOp(cc *ssa.CallCommon, resT types.Type, pos token.Pos) *Val {
	s := g.val(cc.Args[0])
	t := g.val(cc.Args[1])
	st, ok := cc.Args[0].Type().Underlying().(*types.Slice)
	if !ok {
		return g.havocCall("builtin.append", resT, pos)
	}
	sz := g.lay.Size(st.Elem())
	if t.Sort != "Slice" { // append([]byte, string...)
		return g.havocCall("builtin.append(string)", resT, pos)
	}
	newLen := g.def("applen", "Int", fmt.Sprintf("(+ %s %s)", s.S[2], t.S[2]))
	inPlace := g.def("appinplace", "Bool", fmt.Sprintf("(<= %s %s)", newLen, s.S[3]))
	for _, li := range g.inLoop[g.cur] {
		if li.appendFresh && li.preNext != "" {
			g.oblige("frame", fmt.Sprintf("(=> (and %s (> %s 0)) (>= %s %s))", inPlace, t.S[2], s.S[0], li.preNext), pos,
				"append inside a loop writes in place only into an object allocated since the loop was entered", nil)
		}
	}
	// fresh object for the reallocation case
	preHeap := copyMap(g.heap)
	fobj := g.def("obj_append", "Int", g.nextobj)
	g.nextobj = g.def("nextobj", "Int", fmt.Sprintf("(+ %s 1)", fobj))
	robj := g.def("appobj", "Int", fmt.Sprintf("(ite %s %s %s)", inPlace, s.S[0], fobj))
	roff := g.def("appoff", "Int", fmt.Sprintf("(ite %s %s 0)", inPlace, s.S[1]))
	rcap := g.freshConst("appcap", "Int")
	g.assumeRaw(fmt.Sprintf("(and (>= %s %s) (=> %s (= %s %s)))", rcap, newLen, inPlace, rcap, s.S[3]))
	// number of appended elements is usually a small constant: copy cell by cell
	nElems := -1
	if isNum(t.S[2]) {
		fmt.Sscan(t.S[2], &nElems)
	}
	for _, srt := range g.sorts {
		row := g.freshConst("approw"+srt, fmt.Sprintf("(Array Int %s)", srt))
		old := preHeap[srt]
		// prefix cells
		g.assumeRaw(fmt.Sprintf("(forall ((k Int)) (! (=> (and (<= 0 k) (< k (* %d %s))) (= (select %s (+ %s k)) (select (select %s %s) (+ %s k)))) :pattern ((select %s (+ %s k)))))",
			sz, s.S[2], row, roff, old, s.S[0], s.S[1], row, roff))
		// appended cells
		if nElems >= 0 && nElems*sz <= 64 {
			for k := 0; k < nElems*sz; k++ {
				g.assumeRaw(fmt.Sprintf("(= (select %s (+ %s (* %d %s) %d)) (select (select %s %s) %s))", row, roff, sz, s.S[2], k, old, t.S[0], addOff(t.S[1], k)))
			}
		} else {
			g.assumeRaw(fmt.Sprintf("(forall ((k Int)) (! (=> (and (<= 0 k) (< k (* %d %s))) (= (select %s (+ %s (* %d %s) k)) (select (select %s %s) (+ %s k)))) :pattern ((select %s (+ %s (* %d %s) k)))))",
				sz, t.S[2], row, roff, sz, s.S[2], old, t.S[0], t.S[1], row, roff, sz, s.S[2]))
		}
		// in place: cells outside [off+len*sz, off+newLen*sz) keep their values
		g.assumeRaw(fmt.Sprintf("(=> %s (forall ((k Int)) (! (=> (not (and (<= (+ %s (* %d %s)) k) (< k (+ %s (* %d %s))))) (= (select %s k) (select (select %s %s) k))) :pattern ((select %s k)))))",
			inPlace, s.S[1], sz, s.S[2], s.S[1], sz, newLen, row, old, s.S[0], row))
		if _, isPtrElem := st.Elem().Underlying().(*types.Pointer); isPtrElem && srt == "Int" && sz == 2 && nElems == 1 && g.hasPrelude("batchspec") {
			// pointer slices: the same two facts (prefix kept, new last element) restated through the pointer accessors
			// pobj/poff of spec/batchspec.smt2 - consequences of the cell-level facts above and of the accessors' defining
			// axioms, given in the form quantified invariants over pointer slices are written in (arithmetic inside select
			// is no usable E-matching trigger)
			g.use("prelude:batchspec")
			oldRow := fmt.Sprintf("(select %s %s)", old, s.S[0])
			g.assumeRaw(fmt.Sprintf("(forall ((j Int)) (! (=> (and (<= 0 j) (< j %s)) (and (= (pobj %s %s j) (pobj %s %s j)) (= (poff %s %s j) (poff %s %s j)))) :pattern ((pobj %s %s j)) :pattern ((poff %s %s j))))",
				s.S[2], row, roff, oldRow, s.S[1], row, roff, oldRow, s.S[1], row, roff, row, roff))
			g.assumeRaw(fmt.Sprintf("(and (= (pobj %s %s %s) (select (select %s %s) %s)) (= (poff %s %s %s) (select (select %s %s) %s)))",
				row, roff, s.S[2], old, t.S[0], addOff(t.S[1], 0), row, roff, s.S[2], old, t.S[0], addOff(t.S[1], 1)))
		}
		g.heap[srt] = g.def("H"+srt, g.heapSort(srt), fmt.Sprintf("(store %s %s %s)", old, robj, row))
	}
	return &Val{T: resT, Sort: "Slice", S: []string{robj, roff, newLen, rcap}}
}

func (g *Gen) copyOp(cc *ssa.CallCommon, resT types.Type, pos token.Pos) *Val {
	d := g.val(cc.Args[0])
	s := g.val(cc.Args[1])
	dt, ok := cc.Args[0].Type().Underlying().(*types.Slice)
	if !ok || s.Sort != "Slice" {
		return g.havocCall("builtin.copy", resT, pos)
	}
	sz := g.lay.Size(dt.Elem())
	n := g.def("copyn", "Int", fmt.Sprintf("(ite (<= %s %s) %s %s)", d.S[2], s.S[2], d.S[2], s.S[2]))
	for _, srt := range g.sorts {
		old := g.heap[srt]
		row := g.freshConst("cprow"+srt, fmt.Sprintf("(Array Int %s)", srt))
		g.assumeRaw(fmt.Sprintf("(forall ((k Int)) (! (= (select %s k) (ite (and (<= %s k) (< k (+ %s (* %d %s)))) (select (select %s %s) (+ %s (- k %s))) (select (select %s %s) k))) :pattern ((select %s k))))",
			row, d.S[1], d.S[1], sz, n, old, s.S[0], s.S[1], d.S[1], old, d.S[0], row))
		g.heap[srt] = g.def("H"+srt, g.heapSort(srt), fmt.Sprintf("(store %s %s %s)", old, d.S[0], row))
	}
	return scalar("Int", n, resT)
}

// hasPrelude: the unit's contract names the prelude explicitly.
func (g *Gen) hasPrelude(name string) bool {
	for _, p := range g.ct.Preludes {
		if p == name {
			return true
		}
	}
	return false
}
