package main

// Contract files: lines starting with "//@" (in /repo/<pkg>/zz_contracts_verif.go,
// package-relative function keys) or plain lines in /verif/contracts/deps/*.ctr
// (keys carry the full package path).
//
//   func Element.SetBytesLE          start a contract block (methods: Recv.Name; closures: Parent$1)
//   props C16 C13                    properties whose core set contains this unit's obligations
//   prelude int field                spec preludes (/verif/spec/<name>.smt2) loaded for this unit
//   view limbs                       fr.Element is four uint64 cells (default outside package fr: opaque)
//   assumed <reason>                 contract is trusted, body is not checked (dependencies, assembly)
//   requires E / ensures E           E may be prefixed by "@Cxx[,Cyy]" to tag the clause with properties
//   modifies L1, L2, ...             frame: lvalues (pre-state) that may change; default: nothing
//   loop K invariant E / decreases E / modifies L...
//   ghost ... (see vcgen)            engine-specific ghost directives
//   nilable p                        pointer parameter p may be nil
//   let x = E                        abbreviation usable in later clauses (pre-state)

import (
	"bufio"
	"fmt"
	"os"
	"path/filepath"
	"strconv"
	"strings"
)

type Clause struct {
	Using []string // when set, the obligation is proved from these named facts only (sliced context)
	Label string
	Text  string
	E     *Expr
	Props []string // extra property tags
	Name  string   // obligation name suffix (post0, pre1, ...)
	File  string
	Line  int
}

type LoopSpec struct {
	Inv      []*Clause
	Dec      *Clause
	Modifies []*Clause
	Unroll   bool
	ModSorts []string // "loop K modifies * in Int": every cell of the sort may change in the loop (havocked at the head)
	Keeps    []string // ghost variables the loop does not change: kept across the head (not havocked), equality obliged at the back edge
	UnrollN  int // unroll the loop this many iterations (with an unwinding obligation) instead of using an invariant
}

type Contract struct {
	Key      string // full key: pkgpath.Func or pkgpath.Recv.Func
	Props    []string
	Preludes []string
	View     map[string]string
	Assumed  string
	Requires []*Clause
	Ensures  []*Clause
	Modifies []*Clause
	ModAny   bool // "modifies *" : anything may change (no frame)
	ModSorts []string // "modifies * in Fp": any cell of the named sorts may change; cells of the other sorts are framed
	Loops    map[int]*LoopSpec
	Nilable  map[string]bool
	Lets     []struct {
		Name string
		E    *Expr
	}
	Ghost   []string
	Facts   []*FactDef // parameterised preconditions: required for all parameter values, used by explicit instantiation
	Split   []*Clause  // case split: one verification unit per case (added to the preconditions) + exhaustiveness obligation
	Ats     []*AtStmt
	Options map[string]string
	File    string
	Line    int
	Pure    bool
}

// AtStmt is a ghost statement attached to a program point:
//
//	at call NAME K: assert E        after the K-th call of NAME (source order) in the function
//	at store K: assert E            after the K-th store instruction
//	at call NAME K: ghost x := E    bind a ghost name to the value of E at that point
type AtStmt struct {
	PointKind string // call, store
	Callee    string
	Ordinal   int
	Kind      string // assert, ghost
	Name      string
	C         *Clause
	Used      bool
	PassVars  []string // pass: names of the callee schema's bound variables
}

type macroDef struct {
	params []string
	body   string
}

// FactDef: "fact NAME(k int, j int): E" - a precondition schema. Callers must establish forall k,j. E (in the
// pre-state); inside the unit it is never asserted as a quantified formula: ghost statements "inst NAME(e1, e2)"
// add the instance E[k:=e1, j:=e2] (evaluated in the entry heap) at a program point.
type FactDef struct {
	Name string
	Vars []BVar
	C    *Clause
}

type ContractSet struct {
	Macros map[string]macroDef
	PkgInv map[string][]*Clause // package path -> invariants of package-level state assumed at entry
	PkgInvLocal map[string][]*Clause
	ByKey  map[string]*Contract
	Order  []string
	Errs   []string
}

func NewContractSet() *ContractSet {
	return &ContractSet{ByKey: map[string]*Contract{}, PkgInv: map[string][]*Clause{}, PkgInvLocal: map[string][]*Clause{}, Macros: map[string]macroDef{}}
}

func splitTopLevel(s string, sep rune) []string {
	var out []string
	depth := 0
	cur := strings.Builder{}
	for _, c := range s {
		switch c {
		case '(', '[', '{':
			depth++
		case ')', ']', '}':
			depth--
		}
		if c == sep && depth == 0 {
			out = append(out, strings.TrimSpace(cur.String()))
			cur.Reset()
			continue
		}
		cur.WriteRune(c)
	}
	if strings.TrimSpace(cur.String()) != "" {
		out = append(out, strings.TrimSpace(cur.String()))
	}
	return out
}

// ParseFile reads a contract file. pkgPath is prepended to keys when marked (repo files).
func (cs *ContractSet) ParseFile(path string, pkgPath string) {
	f, err := os.Open(path)
	if err != nil {
		cs.Errs = append(cs.Errs, err.Error())
		return
	}
	defer f.Close()
	isGo := strings.HasSuffix(path, ".go")
	sc := bufio.NewScanner(f)
	sc.Buffer(make([]byte, 1<<20), 1<<20)
	var cur *Contract
	lineNo := 0
	pending := ""
	pendingLine := 0
	fail := func(msg string, a ...interface{}) {
		cs.Errs = append(cs.Errs, fmt.Sprintf("%s:%d: %s", path, lineNo, fmt.Sprintf(msg, a...)))
	}
	for sc.Scan() {
		lineNo++
		line := sc.Text()
		if isGo {
			t := strings.TrimSpace(line)
			if !strings.HasPrefix(t, "//@") {
				continue
			}
			line = strings.TrimPrefix(t, "//@")
		}
		if i := strings.Index(line, " //"); i >= 0 && !strings.Contains(line[i:], "\"") {
			line = line[:i]
		}
		line = strings.TrimSpace(line)
		if line == "" || strings.HasPrefix(line, "#") {
			continue
		}
		if strings.HasSuffix(line, "\\") {
			if pending == "" {
				pendingLine = lineNo
			}
			pending += strings.TrimSuffix(line, "\\") + " "
			continue
		}
		if pending != "" {
			line = pending + line
			pending = ""
		} else {
			pendingLine = lineNo
		}
		kw, rest := line, ""
		if i := strings.IndexAny(line, " \t"); i >= 0 {
			kw, rest = line[:i], strings.TrimSpace(line[i+1:])
		}
		mkClause := func(text string) *Clause {
			c := &Clause{File: path, Line: pendingLine}
			if strings.HasPrefix(text, "@") {
				i := strings.IndexAny(text, " \t")
				if i < 0 {
					fail("clause has only a tag")
					return nil
				}
				c.Props = strings.Split(text[1:i], ",")
				text = strings.TrimSpace(text[i+1:])
			}
			for pass := 0; pass < 6; pass++ {
				nt := cs.expandMacros(text, 0)
				if nt == text {
					break
				}
				text = nt
			}
			if i := strings.LastIndex(text, " using "); i >= 0 {
				for _, u := range strings.Split(text[i+7:], ",") {
					c.Using = append(c.Using, strings.TrimSpace(u))
				}
				text = strings.TrimSpace(text[:i])
			}
			c.Text = text
			e, err := ParseExpr(text)
			if err != nil {
				fail("%v", err)
				return nil
			}
			c.E = e
			return c
		}
		if kw == "func" {
			key := strings.Fields(rest)[0]
			if pkgPath != "" {
				key = pkgPath + "." + key
			}
			cur = &Contract{Key: key, View: map[string]string{}, Loops: map[int]*LoopSpec{}, Nilable: map[string]bool{}, Options: map[string]string{}, File: path, Line: lineNo}
			if _, dup := cs.ByKey[key]; dup {
				fail("duplicate contract for %s", key)
			}
			cs.ByKey[key] = cur
			cs.Order = append(cs.Order, key)
			continue
		}
		if kw == "macro" {
			// macro name(a, b) = body
			eq := strings.Index(rest, "=")
			lp := strings.Index(rest, "(")
			rp := strings.Index(rest, ")")
			if eq < 0 || lp < 0 || rp < lp || rp > eq {
				fail("macro needs name(params) = body")
				continue
			}
			var ps []string
			for _, p := range strings.Split(rest[lp+1:rp], ",") {
				if strings.TrimSpace(p) != "" {
					ps = append(ps, strings.TrimSpace(p))
				}
			}
			cs.Macros[strings.TrimSpace(rest[:lp])] = macroDef{ps, strings.TrimSpace(rest[eq+1:])}
			continue
		}
		if kw == "pkginv" {
			if c := mkClause(rest); c != nil {
				cs.PkgInv[pkgPath] = append(cs.PkgInv[pkgPath], c)
			}
			continue
		}
		if kw == "pkginvlocal" { // package invariant assumed only by units of the package itself (not exported to importers)
			if c := mkClause(rest); c != nil {
				cs.PkgInvLocal[pkgPath] = append(cs.PkgInvLocal[pkgPath], c)
			}
			continue
		}
		if cur == nil {
			fail("clause outside of a func block: %s", line)
			continue
		}
		switch kw {
		case "props":
			cur.Props = append(cur.Props, strings.Fields(rest)...)
		case "prelude":
			cur.Preludes = append(cur.Preludes, strings.Fields(rest)...)
		case "view":
			for _, v := range strings.Fields(rest) {
				cur.View[v] = "1"
			}
		case "assumed":
			cur.Assumed = rest
			if rest == "" {
				cur.Assumed = "trusted"
			}
		case "pure":
			cur.Pure = true
		case "option":
			kv := strings.SplitN(rest, " ", 2)
			if len(kv) == 1 {
				kv = append(kv, "1")
			}
			cur.Options[kv[0]] = strings.TrimSpace(kv[1])
		case "nilable":
			for _, v := range strings.Fields(rest) {
				cur.Nilable[v] = true
			}
		case "requires":
			if c := mkClause(rest); c != nil {
				c.Name = "pre" + strconv.Itoa(len(cur.Requires))
				cur.Requires = append(cur.Requires, c)
			}
		case "ensures":
			if c := mkClause(rest); c != nil {
				c.Name = "post" + strconv.Itoa(len(cur.Ensures))
				cur.Ensures = append(cur.Ensures, c)
			}
		case "modifies":
			if rest == "*" {
				cur.ModAny = true
				continue
			}
			if strings.HasPrefix(rest, "* in ") {
				cur.ModSorts = append(cur.ModSorts, strings.Fields(strings.TrimPrefix(rest, "* in "))...)
				continue
			}
			for _, part := range splitTopLevel(rest, ',') {
				if c := mkClause(part); c != nil {
					cur.Modifies = append(cur.Modifies, c)
				}
			}
		case "let":
			kv := strings.SplitN(rest, "=", 2)
			if len(kv) != 2 {
				fail("let needs name = expr")
				continue
			}
			ltext := strings.TrimSpace(kv[1])
			for pass := 0; pass < 6; pass++ {
				nt := cs.expandMacros(ltext, 0)
				if nt == ltext {
					break
				}
				ltext = nt
			}
			e, err := ParseExpr(ltext)
			if err != nil {
				fail("%v", err)
				continue
			}
			cur.Lets = append(cur.Lets, struct {
				Name string
				E    *Expr
			}{strings.TrimSpace(kv[0]), e})
		case "fact":
			lp := strings.Index(rest, "(")
			rp := strings.Index(rest, ")")
			col := strings.Index(rest, ":")
			if lp < 0 || rp < lp || col < rp {
				fail("fact needs NAME(vars): expr")
				continue
			}
			fd := &FactDef{Name: strings.TrimSpace(rest[:lp])}
			for _, v := range strings.Split(rest[lp+1:rp], ",") {
				f := strings.Fields(v)
				if len(f) == 1 {
					fd.Vars = append(fd.Vars, BVar{f[0], "int"})
				} else if len(f) == 2 {
					fd.Vars = append(fd.Vars, BVar{f[0], f[1]})
				}
			}
			fd.C = mkClause(strings.TrimSpace(rest[col+1:]))
			if fd.C != nil {
				fd.C.Name = "fact." + fd.Name
				cur.Facts = append(cur.Facts, fd)
			}
		case "split":
			for _, part := range splitTopLevel(rest, '|') {
				if c := mkClause(part); c != nil {
					cur.Split = append(cur.Split, c)
				}
			}
		case "ghost":
			cur.Ghost = append(cur.Ghost, rest)
		case "at":
			i := strings.Index(rest, ":")
			if i < 0 {
				fail("at needs 'point: statement'")
				continue
			}
			pt := strings.Fields(rest[:i])
			stmt := strings.TrimSpace(rest[i+1:])
			as := &AtStmt{}
			switch {
			case len(pt) == 3 && pt[0] == "call":
				as.PointKind, as.Callee = "call", pt[1]
				as.Ordinal, _ = strconv.Atoi(pt[2])
			case len(pt) == 2 && pt[0] == "store":
				as.PointKind = "store"
				as.Ordinal, _ = strconv.Atoi(pt[1])
			case len(pt) == 2 && pt[0] == "loopbody":
				as.PointKind = "loopbody"
				as.Ordinal, _ = strconv.Atoi(pt[1])
			case len(pt) == 2 && pt[0] == "go":
				as.PointKind = "go"
				as.Ordinal, _ = strconv.Atoi(pt[1])
			case len(pt) == 2 && pt[0] == "return":
				as.PointKind = "return"
				if pt[1] == "*" {
					as.Ordinal = -1
				} else {
					as.Ordinal, _ = strconv.Atoi(pt[1])
				}
			default:
				fail("bad program point %q", rest[:i])
				continue
			}
			if strings.HasPrefix(stmt, "assert") && (strings.HasPrefix(stmt, "assert ") || strings.HasPrefix(stmt, "assert@")) {
				as.Kind = "assert"
				body := strings.TrimPrefix(stmt, "assert")
				label := ""
				if strings.HasPrefix(body, "@") {
					j := strings.IndexAny(body, " \t")
					if j < 0 {
						fail("assert@label needs an expression")
						continue
					}
					label = body[1:j]
					body = body[j:]
				}
				as.C = mkClause(strings.TrimSpace(body))
				if as.C != nil {
					as.C.Label = label
				}
			} else if strings.HasPrefix(stmt, "set ") {
				kv := strings.SplitN(strings.TrimPrefix(stmt, "set "), ":=", 2)
				if len(kv) != 2 {
					fail("set needs name := expr")
					continue
				}
				as.Kind = "set"
				as.Name = strings.TrimSpace(kv[0])
				as.C = mkClause(strings.TrimSpace(kv[1]))
			} else if strings.HasPrefix(stmt, "inst ") {
				// inst NAME(e1, e2)
				body := strings.TrimSpace(strings.TrimPrefix(stmt, "inst "))
				as.Kind = "inst"
				as.C = mkClause(body)
				if as.C != nil && as.C.E.Op == "call" && as.C.E.Args[0].Op == "id" {
					as.Name = as.C.E.Args[0].Tok
				} else {
					fail("inst needs NAME(args)")
					continue
				}
			} else if strings.HasPrefix(stmt, "pass ") {
				// pass CALLEEFACT(v1, v2) := OWNFACT(e1, ..): how a precondition schema of the callee at this call is
				// justified by a schema of this unit (bound variables v_i of the callee's schema may occur in the e_j)
				kv := strings.SplitN(strings.TrimPrefix(stmt, "pass "), ":=", 2)
				if len(kv) != 2 {
					fail("pass needs CALLEEFACT(vars) := OWNFACT(args)")
					continue
				}
				lhs, err := ParseExpr(strings.TrimSpace(kv[0]))
				if err != nil || lhs.Op != "call" || lhs.Args[0].Op != "id" {
					fail("pass: bad left-hand side")
					continue
				}
				as.Kind = "pass"
				as.Name = lhs.Args[0].Tok
				for _, a := range lhs.Args[1:] {
					as.PassVars = append(as.PassVars, a.Tok)
				}
				as.C = mkClause(strings.TrimSpace(kv[1]))
				if as.C == nil || as.C.E.Op != "call" || as.C.E.Args[0].Op != "id" {
					fail("pass: right-hand side must be OWNFACT(args)")
					continue
				}
			} else if strings.HasPrefix(stmt, "mark ") {
				as.Kind = "mark"
				as.Name = strings.TrimSpace(strings.TrimPrefix(stmt, "mark "))
				as.C = &Clause{Text: stmt, File: path, Line: pendingLine}
			} else if strings.HasPrefix(stmt, "ghost ") {
				kv := strings.SplitN(strings.TrimPrefix(stmt, "ghost "), ":=", 2)
				if len(kv) != 2 {
					fail("ghost binding needs name := expr")
					continue
				}
				as.Kind = "ghost"
				as.Name = strings.TrimSpace(kv[0])
				as.C = mkClause(strings.TrimSpace(kv[1]))
			} else {
				fail("unknown ghost statement %q", stmt)
				continue
			}
			if as.C != nil {
				as.C.Name = fmt.Sprintf("assert%d", len(cur.Ats))
				if as.C.Label != "" {
					as.C.Name = "assert." + as.C.Label
				}
				cur.Ats = append(cur.Ats, as)
			}
		case "loop":
			parts := strings.SplitN(rest, " ", 3)
			if len(parts) < 2 {
				fail("loop needs ordinal and kind")
				continue
			}
			k, err := strconv.Atoi(parts[0])
			if err != nil {
				fail("loop ordinal: %v", err)
				continue
			}
			ls := cur.Loops[k]
			if ls == nil {
				ls = &LoopSpec{}
				cur.Loops[k] = ls
			}
			body := ""
			if len(parts) == 3 {
				body = strings.TrimSpace(parts[2])
			}
			switch parts[1] {
			case "invariant":
				if c := mkClause(body); c != nil {
					c.Name = fmt.Sprintf("inv%d.%d", k, len(ls.Inv))
					ls.Inv = append(ls.Inv, c)
				}
			case "decreases":
				if c := mkClause(body); c != nil {
					c.Name = fmt.Sprintf("var%d", k)
					ls.Dec = c
				}
			case "modifies":
				if strings.HasPrefix(body, "* in ") {
					ls.ModSorts = append(ls.ModSorts, strings.Fields(strings.TrimPrefix(body, "* in "))...)
					continue
				}
				for _, part := range splitTopLevel(body, ',') {
					if c := mkClause(part); c != nil {
						ls.Modifies = append(ls.Modifies, c)
					}
				}
			case "keeps":
				ls.Keeps = append(ls.Keeps, strings.Fields(body)...)
			case "unroll":
				ls.Unroll = true
				ls.UnrollN, _ = strconv.Atoi(strings.TrimSpace(body))
				if ls.UnrollN <= 0 {
					fail("loop unroll needs a positive iteration bound")
				}
			default:
				fail("unknown loop clause %q", parts[1])
			}
		default:
			fail("unknown contract keyword %q", kw)
		}
	}
}

func (cs *ContractSet) ParseDepsDir(dir string) {
	files, _ := filepath.Glob(filepath.Join(dir, "*.ctr"))
	for _, f := range files {
		cs.ParseFile(f, "")
	}
}

func isIdentByte(c byte) bool {
	return c == '_' || c == '$' || (c >= 'a' && c <= 'z') || (c >= 'A' && c <= 'Z') || (c >= '0' && c <= '9')
}

// expandMacros textually expands macro applications name(args).
func (cs *ContractSet) expandMacros(text string, depth int) string {
	if depth > 8 || len(cs.Macros) == 0 {
		return text
	}
	for name, m := range cs.Macros {
		for start := 0; ; {
			i := strings.Index(text[start:], name+"(")
			if i < 0 {
				break
			}
			i += start
			if i > 0 && isIdentByte(text[i-1]) {
				start = i + 1
				continue
			}
			// balanced argument list
			j := i + len(name) + 1
			d := 1
			for j < len(text) && d > 0 {
				if text[j] == '(' {
					d++
				} else if text[j] == ')' {
					d--
				}
				j++
			}
			args := splitTopLevel(text[i+len(name)+1:j-1], ',')
			body := m.body
			if len(args) == len(m.params) {
				// substitute whole identifiers
				var b strings.Builder
				for k := 0; k < len(body); {
					if isIdentByte(body[k]) && (k == 0 || !isIdentByte(body[k-1])) {
						e := k
						for e < len(body) && isIdentByte(body[e]) {
							e++
						}
						word := body[k:e]
						rep := word
						for pi, p := range m.params {
							if p == word {
								rep = "(" + args[pi] + ")"
							}
						}
						b.WriteString(rep)
						k = e
						continue
					}
					b.WriteByte(body[k])
					k++
				}
				body = b.String()
			}
			text = text[:i] + "(" + body + ")" + text[j:]
			start = i + 1
		}
	}
	return text
}
