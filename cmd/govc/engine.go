package main

import (
	"fmt"
	"go/token"
	"go/types"
	"hash/fnv"
	"os"
	"path/filepath"
	"sort"
	"strings"
	"sync"

	"golang.org/x/tools/go/packages"
	"golang.org/x/tools/go/ssa"
	"golang.org/x/tools/go/ssa/ssautil"
)

const repoMod = "github.com/crate-crypto/go-ipa"

type Engine struct {
	repoDir  string
	verifDir string
	fset     *token.FileSet
	prog     *ssa.Program
	pkgs     []*packages.Package
	spkgs    []*ssa.Package
	cs       *ContractSet
	prelude  *Prelude

	mu       sync.Mutex
	strIDs   map[string]string
	funcIDs  map[*ssa.Function]string
	globIDs  map[*ssa.Global]string
	globList []*ssa.Global
	fnByKey  map[string]*ssa.Function
}

func (e *Engine) Load() error {
	cfg := &packages.Config{
		Mode:       packages.NeedName | packages.NeedFiles | packages.NeedCompiledGoFiles | packages.NeedImports | packages.NeedDeps | packages.NeedTypes | packages.NeedTypesSizes | packages.NeedSyntax | packages.NeedTypesInfo | packages.NeedModule,
		Dir:        e.repoDir,
		BuildFlags: []string{"-tags=verif", "-mod=mod"},
		Env:        append(os.Environ(), "GOFLAGS=-mod=mod", "GOPROXY=off", "GOSUMDB=off", "GOTOOLCHAIN=local"),
	}
	pkgs, err := packages.Load(cfg, "./...")
	if err != nil {
		return err
	}
	nerr := 0
	packages.Visit(pkgs, nil, func(p *packages.Package) {
		for _, e := range p.Errors {
			if nerr < 10 {
				fmt.Fprintln(os.Stderr, "load error:", e)
			}
			nerr++
		}
	})
	if nerr > 0 {
		return fmt.Errorf("%d package load errors (the tree does not compile)", nerr)
	}
	e.pkgs = pkgs
	if len(pkgs) > 0 {
		e.fset = pkgs[0].Fset
	}
	prog, spkgs := ssautil.AllPackages(pkgs, ssa.GlobalDebug|ssa.InstantiateGenerics)
	prog.Build()
	e.prog = prog
	e.spkgs = spkgs
	e.strIDs = map[string]string{}
	e.funcIDs = map[*ssa.Function]string{}
	e.globIDs = map[*ssa.Global]string{}
	e.fnByKey = map[string]*ssa.Function{}
	for fn := range ssautil.AllFunctions(prog) {
		if fn.Synthetic != "" && !strings.HasPrefix(fn.Synthetic, "package init") {
			continue
		}
		k := funcKey(fn)
		if old, dup := e.fnByKey[k]; dup && old.Pos() < fn.Pos() {
			continue
		}
		e.fnByKey[k] = fn
	}
	// stable global numbering: repo packages sorted by path, members by name
	var gl []*ssa.Global
	for _, p := range prog.AllPackages() {
		for _, m := range p.Members {
			if g, ok := m.(*ssa.Global); ok {
				gl = append(gl, g)
			}
		}
	}
	sort.Slice(gl, func(i, j int) bool {
		a, b := gl[i], gl[j]
		if a.Pkg.Pkg.Path() != b.Pkg.Pkg.Path() {
			return a.Pkg.Pkg.Path() < b.Pkg.Pkg.Path()
		}
		return a.Name() < b.Name()
	})
	e.globList = gl
	for i, g := range gl {
		e.globIDs[g] = fmt.Sprint(i + 1)
	}
	// contracts
	e.cs = NewContractSet()
	if _, err := os.Stat(filepath.Join(e.verifDir, "contracts", "macros.ctr")); err == nil {
		e.cs.ParseFile(filepath.Join(e.verifDir, "contracts", "macros.ctr"), "")
	}
	for _, p := range pkgs {
		for _, f := range p.CompiledGoFiles {
			if filepath.Base(f) == "zz_contracts_verif.go" {
				e.cs.ParseFile(f, p.PkgPath)
			}
		}
	}
	e.cs.ParseDepsDir(filepath.Join(e.verifDir, "contracts", "deps"))
	e.prelude = LoadPrelude(filepath.Join(e.verifDir, "spec"))
	return nil
}

func (e *Engine) stringID(s string) string {
	e.mu.Lock()
	defer e.mu.Unlock()
	if id, ok := e.strIDs[s]; ok {
		return id
	}
	// deterministic: independent of the order in which units are generated
	h := fnv.New32a()
	h.Write([]byte(s))
	id := fmt.Sprint(1000000 + int(h.Sum32()%900000000))
	e.strIDs[s] = id
	return id
}

func (e *Engine) funcID(f *ssa.Function) string {
	e.mu.Lock()
	defer e.mu.Unlock()
	if id, ok := e.funcIDs[f]; ok {
		return id
	}
	h := fnv.New32a()
	h.Write([]byte(f.String()))
	id := fmt.Sprint(1000000 + int(h.Sum32()%900000000))
	e.funcIDs[f] = id
	return id
}

func (e *Engine) globalID(g *ssa.Global) string { return e.globIDs[g] }
func (e *Engine) maxGlobalID() int              { return len(e.globList) + 1 }

func (e *Engine) contractFor(fn *ssa.Function) *Contract {
	if fn == nil {
		return nil
	}
	if o := fn.Origin(); o != nil {
		fn = o
	}
	return e.cs.ByKey[funcKey(fn)]
}

// contractForView: outside the limb view, fr methods are used through their field-view contracts (key@field).
func (e *Engine) contractForView(fn *ssa.Function, v *View) *Contract {
	if fn == nil {
		return nil
	}
	if o := fn.Origin(); o != nil {
		fn = o
	}
	k := funcKey(fn)
	if v != nil && v.Group {
		if c, ok := e.cs.ByKey[k+"@group"]; ok {
			return c
		}
	}
	if v != nil && v.Field {
		// fr methods keep their limb contracts in units that see fr.Element as limbs
		frCallee := strings.HasPrefix(k, repoMod+"/bandersnatch/fr.")
		if !(frCallee && v.FrLimbs) {
			if c, ok := e.cs.ByKey[k+"@field"]; ok {
				return c
			}
		}
	}
	return e.cs.ByKey[k]
}

func (e *Engine) contractForInvoke(cc *ssa.CallCommon) *Contract {
	return e.cs.ByKey[invokeKey(cc)]
}

func (e *Engine) paramNamesOf(fn *ssa.Function) []string {
	var out []string
	if len(fn.Params) > 0 {
		for _, p := range fn.Params {
			out = append(out, p.Name())
		}
		return out
	}
	// external function: from the signature
	sig := fn.Signature
	if r := sig.Recv(); r != nil {
		n := r.Name()
		if n == "" || n == "_" {
			n = "recv"
		}
		out = append(out, n)
	}
	return append(out, sigParamNames(sig)...)
}

// paramNames of the callee at a call site, aligned with cc.Args.
func (e *Engine) paramNames(cc *ssa.CallCommon) []string {
	if cc.IsInvoke() {
		return sigParamNames(cc.Signature())
	}
	if callee := cc.StaticCallee(); callee != nil {
		return e.paramNamesOf(callee)
	}
	return sigParamNames(cc.Signature())
}

func (e *Engine) pkgOfKey(key string) *ssa.Package {
	best := ""
	var bp *ssa.Package
	for _, p := range e.prog.AllPackages() {
		pp := p.Pkg.Path()
		if strings.HasPrefix(key, pp+".") && len(pp) > len(best) {
			best, bp = pp, p
		}
	}
	return bp
}

func (e *Engine) note(g *Gen, s string) { g.notes = append(g.notes, s) }

// NewGen prepares a verification unit for fn under contract ct.
func (e *Engine) NewGen(fn *ssa.Function, ct *Contract) *Gen {
	v := &View{}
	pkgPath := ""
	if fn.Pkg != nil {
		pkgPath = fn.Pkg.Pkg.Path()
	} else if fn.Parent() != nil && fn.Parent().Pkg != nil {
		pkgPath = fn.Parent().Pkg.Pkg.Path()
	}
	if pkgPath == repoMod+"/bandersnatch/fr" {
		v.FrLimbs = true
	}
	if ct.View["limbs"] != "" {
		v.FrLimbs = true
	}
	if ct.View["opaque"] != "" {
		v.FrLimbs = false
	}
	if ct.View["fplimbs"] != "" {
		v.FpLimbs = true
	}
	sorts := []string{"Int"}
	for _, p := range ct.Preludes {
		switch p {
		case "field", "curve", "fieldring":
			v.Field = true
		case "group":
			v.Field = true
			v.Group = true
		case "bytes":
			v.Bytes = true
		}
	}
	if v.Field {
		if !v.FpLimbs {
			sorts = append(sorts, "Fp")
		}
		if !v.FrLimbs {
			sorts = append(sorts, "Fr")
		}
	}
	if v.Bytes {
		sorts = append(sorts, "Bytes")
	}
	g := &Gen{eng: e, fn: fn, ct: ct, unit: shortUnit(ct.Key), view: v, lay: NewLayout(v), sorts: sorts}
	return g
}

func shortUnit(key string) string { return strings.TrimPrefix(key, repoMod+"/") }

// ---------- ghost / protocol hooks (filled in by proto.go) ----------

// imports reports whether package p transitively imports the package with path q.
func (e *Engine) imports(p *ssa.Package, q string) bool {
	seen := map[string]bool{}
	var walk func(t *types.Package) bool
	walk = func(t *types.Package) bool {
		if t.Path() == q {
			return true
		}
		if seen[t.Path()] {
			return false
		}
		seen[t.Path()] = true
		for _, i := range t.Imports() {
			if walk(i) {
				return true
			}
		}
		return false
	}
	return walk(p.Pkg)
}
