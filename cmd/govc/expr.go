package main

// Spec expression language: Go-flavoured expressions extended with
//   ==>  <==>  forall x int, y int :: e   exists ...   old(e)   c ? a : b
// parsed by a small precedence-climbing parser.

import (
	"fmt"
	"strings"
	"unicode"
)

type Expr struct {
	Op   string  // "num","id","call","index","sel","un","bin","forall","exists","cond","slice","deref","addr","str"
	Tok  string  // operator / identifier / literal
	Args []*Expr // operands
	Vars []BVar  // bound variables for quantifiers
	Pats []*Expr // explicit trigger terms of a quantifier: forall k int {a[k], f(k)} :: body
	Pos  int
}

type BVar struct{ Name, Sort string }

func (e *Expr) String() string {
	switch e.Op {
	case "num", "id", "str":
		return e.Tok
	case "call":
		s := []string{}
		for _, a := range e.Args[1:] {
			s = append(s, a.String())
		}
		return e.Args[0].String() + "(" + strings.Join(s, ", ") + ")"
	case "index":
		return e.Args[0].String() + "[" + e.Args[1].String() + "]"
	case "slice":
		s := e.Args[0].String() + "["
		if e.Args[1] != nil {
			s += e.Args[1].String()
		}
		s += ":"
		if e.Args[2] != nil {
			s += e.Args[2].String()
		}
		return s + "]"
	case "sel":
		return e.Args[0].String() + "." + e.Tok
	case "un":
		return e.Tok + e.Args[0].String()
	case "deref":
		return "*" + e.Args[0].String()
	case "addr":
		return "&" + e.Args[0].String()
	case "bin":
		return "(" + e.Args[0].String() + " " + e.Tok + " " + e.Args[1].String() + ")"
	case "cond":
		return "(" + e.Args[0].String() + " ? " + e.Args[1].String() + " : " + e.Args[2].String() + ")"
	case "forall", "exists":
		vs := []string{}
		for _, v := range e.Vars {
			vs = append(vs, v.Name+" "+v.Sort)
		}
		return "(" + e.Op + " " + strings.Join(vs, ", ") + " :: " + e.Args[0].String() + ")"
	}
	return "?" + e.Op
}

type lexTok struct {
	kind string // "num","id","op","str","eof"
	text string
	pos  int
}

func lex(src string) ([]lexTok, error) {
	var toks []lexTok
	i := 0
	ops := []string{"<==>", "==>", "::", "&&", "||", "==", "!=", "<=", ">=", "<<", ">>", "&^",
		"+", "-", "*", "/", "%", "<", ">", "!", "(", ")", "[", "]", ",", ".", "?", ":", "&", "|", "^", "{", "}"}
	for i < len(src) {
		c := rune(src[i])
		if unicode.IsSpace(c) {
			i++
			continue
		}
		if unicode.IsDigit(c) {
			j := i
			for j < len(src) && (unicode.IsDigit(rune(src[j])) || src[j] == '_' || (j == i+1 && (src[j] == 'x' || src[j] == 'X')) || (strings.HasPrefix(src[i:], "0x") && strings.ContainsRune("abcdefABCDEF", rune(src[j])))) {
				j++
			}
			toks = append(toks, lexTok{"num", strings.ReplaceAll(src[i:j], "_", ""), i})
			i = j
			continue
		}
		if unicode.IsLetter(c) || c == '_' || c == '$' {
			j := i
			for j < len(src) && (unicode.IsLetter(rune(src[j])) || unicode.IsDigit(rune(src[j])) || src[j] == '_' || src[j] == '$' || src[j] == '\'') {
				j++
			}
			toks = append(toks, lexTok{"id", src[i:j], i})
			i = j
			continue
		}
		if c == '"' {
			j := i + 1
			for j < len(src) && src[j] != '"' {
				j++
			}
			if j >= len(src) {
				return nil, fmt.Errorf("unterminated string at %d", i)
			}
			toks = append(toks, lexTok{"str", src[i+1 : j], i})
			i = j + 1
			continue
		}
		matched := false
		for _, op := range ops {
			if strings.HasPrefix(src[i:], op) {
				toks = append(toks, lexTok{"op", op, i})
				i += len(op)
				matched = true
				break
			}
		}
		if !matched {
			return nil, fmt.Errorf("unexpected character %q at %d in %q", c, i, src)
		}
	}
	toks = append(toks, lexTok{"eof", "", len(src)})
	return toks, nil
}

type parser struct {
	toks []lexTok
	p    int
	src  string
}

func ParseExpr(src string) (*Expr, error) {
	toks, err := lex(src)
	if err != nil {
		return nil, err
	}
	ps := &parser{toks: toks, src: src}
	e, err := ps.parseExpr(0)
	if err != nil {
		return nil, err
	}
	if ps.peek().kind != "eof" {
		return nil, fmt.Errorf("trailing input at %d (%q) in %q", ps.peek().pos, ps.peek().text, src)
	}
	return e, nil
}

func (ps *parser) peek() lexTok { return ps.toks[ps.p] }
func (ps *parser) next() lexTok { t := ps.toks[ps.p]; ps.p++; return t }
func (ps *parser) accept(op string) bool {
	if t := ps.peek(); t.kind == "op" && t.text == op {
		ps.p++
		return true
	}
	return false
}
func (ps *parser) expect(op string) error {
	if !ps.accept(op) {
		return fmt.Errorf("expected %q at %d (got %q) in %q", op, ps.peek().pos, ps.peek().text, ps.src)
	}
	return nil
}

// binary precedence (higher binds tighter); right-assoc for ==> and <==>
var binPrec = map[string]int{
	"<==>": 1, "==>": 2, "||": 3, "&&": 4,
	"==": 5, "!=": 5, "<": 5, "<=": 5, ">": 5, ">=": 5,
	"+": 6, "-": 6, "|": 6, "^": 6,
	"*": 7, "/": 7, "%": 7, "<<": 7, ">>": 7, "&": 7, "&^": 7,
}

func (ps *parser) parseExpr(minPrec int) (*Expr, error) {
	// quantifiers bind loosest
	if t := ps.peek(); t.kind == "id" && (t.text == "forall" || t.text == "exists") {
		ps.next()
		var vars []BVar
		for {
			n := ps.next()
			if n.kind != "id" {
				return nil, fmt.Errorf("expected bound variable at %d in %q", n.pos, ps.src)
			}
			sort := "int"
			if s := ps.peek(); s.kind == "id" {
				sort = ps.next().text
			}
			vars = append(vars, BVar{n.text, sort})
			if !ps.accept(",") {
				break
			}
		}
		var pats []*Expr
		if ps.accept("{") {
			for {
				pe, err := ps.parseExpr(1)
				if err != nil {
					return nil, err
				}
				pats = append(pats, pe)
				if ps.accept("}") {
					break
				}
				if err := ps.expect(","); err != nil {
					return nil, err
				}
			}
		}
		if err := ps.expect("::"); err != nil {
			return nil, err
		}
		body, err := ps.parseExpr(0)
		if err != nil {
			return nil, err
		}
		return &Expr{Op: t.text, Vars: vars, Pats: pats, Args: []*Expr{body}, Pos: t.pos}, nil
	}
	lhs, err := ps.parseUnary()
	if err != nil {
		return nil, err
	}
	for {
		t := ps.peek()
		if t.kind != "op" {
			break
		}
		if t.text == "?" && minPrec == 0 {
			ps.next()
			a, err := ps.parseExpr(0)
			if err != nil {
				return nil, err
			}
			if err := ps.expect(":"); err != nil {
				return nil, err
			}
			b, err := ps.parseExpr(0)
			if err != nil {
				return nil, err
			}
			lhs = &Expr{Op: "cond", Args: []*Expr{lhs, a, b}, Pos: t.pos}
			continue
		}
		prec, ok := binPrec[t.text]
		if !ok || prec < minPrec {
			break
		}
		ps.next()
		nextMin := prec + 1
		if t.text == "==>" || t.text == "<==>" {
			nextMin = prec // right assoc
		}
		var rhs *Expr
		// allow a quantifier on the right of ==> / && / ||
		if q := ps.peek(); q.kind == "id" && (q.text == "forall" || q.text == "exists") {
			rhs, err = ps.parseExpr(0)
		} else {
			rhs, err = ps.parseExpr(nextMin)
		}
		if err != nil {
			return nil, err
		}
		lhs = &Expr{Op: "bin", Tok: t.text, Args: []*Expr{lhs, rhs}, Pos: t.pos}
	}
	return lhs, nil
}

func (ps *parser) parseUnary() (*Expr, error) {
	t := ps.peek()
	if t.kind == "op" {
		switch t.text {
		case "!", "-", "^":
			ps.next()
			a, err := ps.parseUnary()
			if err != nil {
				return nil, err
			}
			return &Expr{Op: "un", Tok: t.text, Args: []*Expr{a}, Pos: t.pos}, nil
		case "*":
			ps.next()
			a, err := ps.parseUnary()
			if err != nil {
				return nil, err
			}
			return &Expr{Op: "deref", Args: []*Expr{a}, Pos: t.pos}, nil
		case "&":
			ps.next()
			a, err := ps.parseUnary()
			if err != nil {
				return nil, err
			}
			return &Expr{Op: "addr", Args: []*Expr{a}, Pos: t.pos}, nil
		}
	}
	return ps.parsePostfix()
}

func (ps *parser) parsePostfix() (*Expr, error) {
	t := ps.next()
	var e *Expr
	switch {
	case t.kind == "num":
		e = &Expr{Op: "num", Tok: t.text, Pos: t.pos}
	case t.kind == "str":
		e = &Expr{Op: "str", Tok: t.text, Pos: t.pos}
	case t.kind == "id":
		e = &Expr{Op: "id", Tok: t.text, Pos: t.pos}
	case t.kind == "op" && t.text == "(":
		inner, err := ps.parseExpr(0)
		if err != nil {
			return nil, err
		}
		if err := ps.expect(")"); err != nil {
			return nil, err
		}
		e = inner
	default:
		return nil, fmt.Errorf("unexpected lexTok %q at %d in %q", t.text, t.pos, ps.src)
	}
	for {
		switch {
		case ps.accept("("):
			args := []*Expr{e}
			if !ps.accept(")") {
				for {
					a, err := ps.parseExpr(0)
					if err != nil {
						return nil, err
					}
					args = append(args, a)
					if ps.accept(")") {
						break
					}
					if err := ps.expect(","); err != nil {
						return nil, err
					}
				}
			}
			e = &Expr{Op: "call", Args: args, Pos: t.pos}
		case ps.accept("["):
			var lo, hi *Expr
			var err error
			if !(ps.peek().kind == "op" && ps.peek().text == ":") {
				lo, err = ps.parseExpr(1)
				if err != nil {
					return nil, err
				}
			}
			if ps.accept(":") {
				if !(ps.peek().kind == "op" && ps.peek().text == "]") {
					hi, err = ps.parseExpr(1)
					if err != nil {
						return nil, err
					}
				}
				if err := ps.expect("]"); err != nil {
					return nil, err
				}
				e = &Expr{Op: "slice", Args: []*Expr{e, lo, hi}, Pos: t.pos}
			} else {
				if err := ps.expect("]"); err != nil {
					return nil, err
				}
				e = &Expr{Op: "index", Args: []*Expr{e, lo}, Pos: t.pos}
			}
		case ps.accept("."):
			n := ps.next()
			if n.kind != "id" {
				return nil, fmt.Errorf("expected field name at %d in %q", n.pos, ps.src)
			}
			e = &Expr{Op: "sel", Tok: n.text, Args: []*Expr{e}, Pos: t.pos}
		default:
			return e, nil
		}
	}
}
