package main

import (
	"os"
	"fmt"
	"go/token"
	"go/types"
	"math/big"
	"strings"

	"golang.org/x/tools/go/ssa"
)

// ---------- loops ----------

// rootOf follows address computations to the base value.
func rootOf(v ssa.Value) ssa.Value {
	for {
		switch x := v.(type) {
		case *ssa.IndexAddr:
			v = x.X
		case *ssa.FieldAddr:
			v = x.X
		case *ssa.Slice:
			v = x.X
		case *ssa.ChangeType:
			v = x.X
		case *ssa.SliceToArrayPointer:
			v = x.X
		default:
			return v
		}
	}
}

func (g *Gen) definedOutside(li *loopInfo, v ssa.Value) bool {
	switch x := v.(type) {
	case *ssa.Parameter, *ssa.FreeVar, *ssa.Global, *ssa.Const, *ssa.Function:
		return true
	case ssa.Instruction:
		return !li.body[x.Block()]
	}
	return false
}

// loopWrites infers what the loop may write: regions (cell ranges of objects) where the target is an
// element/field of a loop-invariant array, slice or pointer (bounds obligations keep accesses inside),
// otherwise whole object rows. ok=false means "unknown": the whole heap is havocked.
func (g *Gen) loopWrites(li *loopInfo) (objs []string, regions []region, allocs bool, ok bool, why string) {
	ok = true
	seen := map[string]bool{}
	li.unknownSorts = map[string]bool{}
	// unknownTarget: a write whose target object cannot be named at loop entry: every heap sort the written
	// type occupies is havocked completely (a write of type T touches only cells of T's sorts)
	unknownTarget := func(t types.Type) bool {
		if t == nil {
			return false
		}
		defer func() { recover() }()
		for _, c := range g.lay.Cells(t) {
			li.unknownSorts[c.Sort] = true
		}
		return true
	}
	_ = unknownTarget
	addRoot := func(v ssa.Value) {
		r := rootOf(v)
		switch r.(type) {
		case *ssa.Alloc, *ssa.MakeSlice:
			if ins := r.(ssa.Instruction); li.body[ins.Block()] {
				if al, isAl := r.(*ssa.Alloc); isAl {
					if obj, h := g.hoisted[al]; h {
						if !seen[obj] {
							seen[obj] = true
							objs = append(objs, obj)
						}
						return
					}
				}
				allocs = true
				return
			}
		}
		if g.definedOutside(li, r) {
			rv := g.val(r)
			if len(rv.S) >= 1 && !seen[rv.S[0]] {
				seen[rv.S[0]] = true
				objs = append(objs, rv.S[0])
			}
			return
		}
		// target defined inside the loop: havoc the sorts of the pointee type
		var pointee types.Type
		switch u := v.Type().Underlying().(type) {
		case *types.Pointer:
			pointee = u.Elem()
		case *types.Slice:
			pointee = u.Elem()
		}
		if pointee != nil && unknownTarget(pointee) {
			return
		}
		ok = false
		why = fmt.Sprintf("store through %s defined inside the loop", r.Name())
	}
	addRegion := func(r region) {
		k := r.obj + "|" + r.lo + "|" + r.hi
		if !seen[k] {
			seen[k] = true
			regions = append(regions, r)
		}
	}
	// addTarget: the cell(s) written through address v (a pointer value)
	addTarget := func(v ssa.Value) {
		switch a := v.(type) {
		case *ssa.IndexAddr:
			if g.definedOutside(li, a.X) {
				bv := g.val(a.X)
				switch u := a.X.Type().Underlying().(type) {
				case *types.Pointer:
					if os := g.lay.view.opaqueSort(u.Elem()); os != "" {
						// a limb store into an element that this view keeps as one opaque cell
						addRegion(region{os, bv.S[0], bv.S[1], addOff(bv.S[1], 1), 1})
						return
					}
					if arr, isArr := u.Elem().Underlying().(*types.Array); isArr {
						n := int(arr.Len()) * g.lay.Size(arr.Elem())
						addRegion(region{g.sortsOf(arr.Elem()), bv.S[0], bv.S[1], addOff(bv.S[1], n), n})
						return
					}
				case *types.Slice:
					sz := g.lay.Size(u.Elem())
					addRegion(region{g.sortsOf(u.Elem()), bv.S[0], bv.S[1], g.mulAdd(bv.S[1], bv.S[2], sz), -1})
					return
				}
			}
		case *ssa.FieldAddr:
			if g.definedOutside(li, a.X) {
				bv := g.val(a.X)
				st := a.X.Type().Underlying().(*types.Pointer).Elem().Underlying().(*types.Struct)
				off := addOff(bv.S[1], g.lay.FieldOff(st, a.Field))
				n := g.lay.Size(st.Field(a.Field).Type())
				addRegion(region{g.sortsOf(st.Field(a.Field).Type()), bv.S[0], off, addOff(off, n), n})
				return
			}
		default:
			if g.definedOutside(li, v) {
				if pt, isPtr := v.Type().Underlying().(*types.Pointer); isPtr {
					bv := g.val(v)
					n := g.lay.Size(pt.Elem())
					addRegion(region{g.sortsOf(pt.Elem()), bv.S[0], bv.S[1], addOff(bv.S[1], n), n})
					return
				}
				if st, isSl := v.Type().Underlying().(*types.Slice); isSl {
					bv := g.val(v)
					addRegion(region{g.sortsOf(st.Elem()), bv.S[0], bv.S[1], g.mulAdd(bv.S[1], bv.S[2], g.lay.Size(st.Elem())), -1})
					return
				}
			}
		}
		addRoot(v)
	}
	for _, b := range g.fn.Blocks {
		if !li.body[b] {
			continue
		}
		for _, ins := range b.Instrs {
			switch x := ins.(type) {
			case *ssa.Store:
				addTarget(x.Addr)
			case *ssa.Alloc:
				if obj, h := g.hoisted[x]; h {
					if !seen[obj] {
						seen[obj] = true
						objs = append(objs, obj)
					}
				} else {
					allocs = true
				}
			case *ssa.MakeSlice, *ssa.MakeMap, *ssa.MakeChan, *ssa.MakeClosure:
				allocs = true
			case *ssa.MakeInterface:
				if obj, h := g.hoisted[x]; h {
					if !seen[obj] {
						seen[obj] = true
						objs = append(objs, obj)
					}
				} else if g.isAgg(x.X.Type()) && g.lay.Size(x.X.Type()) > 0 {
					allocs = true
				}
			case *ssa.Go:
				allocs = true
				// goroutine effects are handled by the protocol rules; writes of the closure body
				// are accounted for at the join point
			case ssa.CallInstruction:
				cc := x.Common()
				if cc.IsInvoke() {
					ct := g.eng.contractForInvoke(cc)
					if ct == nil {
						ok = false
						why = "interface call without contract: " + cc.Method.FullName()
						continue
					}
					g.callWrites(li, ct, cc, addTarget, addRoot, addRegion, &ok, &why, &allocs)
					continue
				}
				if _, isB := cc.Value.(*ssa.Builtin); isB {
					b := cc.Value.(*ssa.Builtin)
					if b.Name() == "append" {
						allocs = true
						if r := rootOf(cc.Args[0]); g.definedOutside(li, r) {
							addRoot(cc.Args[0])
						} else {
							// loop-carried slice: checked at the append site (target allocated since loop entry), unless the
							// loop declares every cell of the element sorts modified (`loop K modifies * in Int`)
							declared := false
							if st, isS := cc.Args[0].Type().Underlying().(*types.Slice); isS {
								declared = len(g.lay.Cells(st.Elem())) > 0
								for _, c := range g.lay.Cells(st.Elem()) {
									in := false
									for _, ms := range li.spec.ModSorts {
										in = in || ms == c.Sort
									}
									declared = declared && in
								}
								if declared {
									unknownTarget(st.Elem())
								}
							}
							if !declared {
								li.appendFresh = true
							}
						}
					}
					if b.Name() == "copy" {
						addTarget(cc.Args[0])
					}
					continue
				}
				callee := cc.StaticCallee()
				if callee == nil {
					if pc := g.eng.ghostCallContract(g, cc); pc != nil {
						continue
					}
					ok = false
					why = "dynamic call " + cc.Value.Name()
					continue
				}
				ct := g.eng.contractForView(callee, g.view)
				if ct == nil {
					ok = false
					why = "call of " + callee.String() + " (no contract)"
					continue
				}
				g.callWrites(li, ct, cc, addTarget, addRoot, addRegion, &ok, &why, &allocs)
			}
		}
	}
	return
}

func baseIdent(e *Expr) string {
	for e != nil {
		switch e.Op {
		case "id":
			return e.Tok
		case "deref", "addr", "index", "sel", "slice":
			e = e.Args[0]
		case "call":
			if len(e.Args) >= 2 {
				e = e.Args[1]
			} else {
				return ""
			}
		default:
			return ""
		}
	}
	return ""
}

func (g *Gen) callWrites(li *loopInfo, ct *Contract, cc *ssa.CallCommon, addTarget, addRoot func(ssa.Value), addRegion func(region), ok *bool, why *string, allocs *bool) {
	if ct.ModAny || len(ct.ModSorts) > 0 {
		*ok = false
		*why = "callee " + ct.Key + " modifies *"
		return
	}
	names := g.eng.paramNames(cc)
	for _, m := range ct.Modifies {
		if m.E.Op == "call" && m.E.Args[0].Op == "id" && m.E.Args[0].Tok == "ghost" {
			continue
		}
		id := baseIdent(m.E)
		found := false
		// ghost cells of abstract readers / writers: one Int cell at a negative offset of the reference
		if m.E.Op == "call" && m.E.Args[0].Op == "id" && len(m.E.Args) == 2 && m.E.Args[1].Op == "id" {
			if m.E.Args[0].Tok == "hcontent" {
				for i, n := range names {
					if n == m.E.Args[1].Tok && i < len(cc.Args) && g.definedOutside(li, cc.Args[i]) {
						addRegion(region{"Bytes", g.val(cc.Args[i]).S[0], "0", "1", 1})
						found = true
					}
				}
				if found {
					continue
				}
			}
			if off, isGhostCell := map[string]string{"rpos": "(- 1)", "wcalls": "(- 2)", "wlen": "(- 3)"}[m.E.Args[0].Tok]; isGhostCell {
				for i, n := range names {
					if n == m.E.Args[1].Tok && i < len(cc.Args) && g.definedOutside(li, cc.Args[i]) {
						addRegion(region{"Int", g.val(cc.Args[i]).S[0], off, fmt.Sprintf("(+ %s 1)", off), 1})
						found = true
					}
				}
				if found {
					continue
				}
			}
		}
		if m.E.Op == "call" && m.E.Args[0].Op == "id" && m.E.Args[0].Tok == "wout" && len(m.E.Args) == 4 && m.E.Args[1].Op == "id" {
			// output bytes of an abstract writer: some non-negative offsets of its ghost row (Int cells only)
			for i, n := range names {
				if n == m.E.Args[1].Tok && i < len(cc.Args) && g.definedOutside(li, cc.Args[i]) {
					addRegion(region{"Int", g.val(cc.Args[i]).S[0], "0", "9223372036854775808", -1})
					found = true
				}
			}
			if found {
				continue
			}
		}
		if g.pathModifies(li, ct, cc, names, m, addRegion) {
			continue
		}
		for i, n := range names {
			if n == id && i < len(cc.Args) {
				// "*p" / "p" with p a pointer or slice parameter: exactly the pointee / the elements
				if m.E.Op == "id" || (m.E.Op == "deref" && m.E.Args[0].Op == "id") {
					addTarget(cc.Args[i])
				} else {
					addRoot(cc.Args[i])
				}
				found = true
			}
		}
		if !found {
			// global or unknown
			*ok = false
			*why = "callee " + ct.Key + " modifies " + m.Text
		}
	}
	for _, e := range ct.Ensures {
		if strings.Contains(e.Text, "fresh(") {
			*allocs = true
		}
	}
}

func (g *Gen) loopEntryEdges(li *loopInfo, edges []inEdge) {
	b := li.header
	li.preNext = g.nextobj
	// 1. invariants hold on entry
	phiEntry := map[string]*Val{}
	phiEntryVals := map[*ssa.Phi]*Val{}
	var phis []*ssa.Phi
	for _, hi := range b.Instrs {
		phi, ok := hi.(*ssa.Phi)
		if !ok {
			break
		}
		phis = append(phis, phi)
		v := g.joinPhiEdges(phi, edges)
		phiEntryVals[phi] = v
		if phi.Comment != "" {
			phiEntry[phi.Comment] = v
		}
		phiEntry["$"+phi.Name()] = v
	}
	pos := token.NoPos
	if len(b.Instrs) > 0 {
		pos = b.Instrs[len(b.Instrs)-1].Pos()
	}
	env := g.loopEnv(li, phiEntry)
	env.goal = true
	for _, c := range li.spec.Inv {
		t := g.specBool(env, c.E)
		g.obligeNamed(fmt.Sprintf("%s#%s.entry", g.unit, c.Name), "inv.entry", t, pos, "loop invariant holds on entry: "+c.Text, c.Props)
	}
	if g.cutHook != nil {
		g.cutHook() // unrolled loop with cut points: from here on the lines belong to the new iteration
	}
	// 2. havoc
	li.preHeap = copyMap(g.heap)
	objs, regions, allocs, ok, why := g.loopWrites(li)
	preNext := g.nextobj
	li.preNext = preNext
	if !ok {
		g.eng.note(g, fmt.Sprintf("loop %d: heap fully havocked (%s)", li.ordinal, why))
		for _, s := range g.sorts {
			g.heap[s] = g.freshConst("Hloop"+s, g.heapSort(s))
		}
		allocs = true
	} else {
		for _, srt := range g.sorts {
			if !li.unknownSorts[srt] {
				continue
			}
			if _, have := g.heap[srt]; have {
				g.heap[srt] = g.freshConst("Hloopsort"+srt, g.heapSort(srt))
				g.eng.note(g, fmt.Sprintf("loop %d: all %s cells havocked (write through a pointer computed inside the loop)", li.ordinal, srt))
			}
		}
		for _, r := range regions {
			g.havocRegion(r)
		}
		for _, s := range g.sorts {
			h := g.heap[s]
			for _, o := range objs {
				row := g.freshConst("row"+s, fmt.Sprintf("(Array Int %s)", s))
				h = fmt.Sprintf("(store %s %s %s)", h, o, row)
			}
			if allocs {
				nh := g.freshConst("Hloop"+s, g.heapSort(s))
				g.assumeRaw(fmt.Sprintf("(forall ((o Int)) (! (=> (< o %s) (= (select %s o) (select %s o))) :pattern ((select %s o))))", preNext, nh, h, nh))
				g.heap[s] = nh
			} else if len(objs) > 0 {
				g.heap[s] = g.def("Hloop"+s, g.heapSort(s), h)
			}
		}
	}
	if allocs {
		g.nextobj = g.freshConst("nextobj_loop", "Int")
		g.assumeRaw(fmt.Sprintf("(>= %s %s)", g.nextobj, preNext))
	}
	for _, k := range sortedKeys(g.ghost) {
		kept := false
		for _, kn := range li.spec.Keeps {
			kept = kept || kn == k
		}
		if kept {
			continue // `loop K keeps k`: value of the loop entry, shown unchanged at every back edge
		}
		if g.eng.ghostLoopHavoc(g, li, k) {
			g.ghost[k] = g.freshConst("gh_"+k, g.ghostSortOf(k))
		}
	}
	phiHead := map[string]*Val{}
	for _, phi := range phis {
		v := g.havocVal(phi.Type(), "loop_"+phi.Name()+"_"+phi.Comment)
		if g.keepPhi != nil && g.keepPhi[phi] {
			// unrolled loop with cut points: counters with constant increments keep their exact value
			v = phiEntryVals[phi]
			if lit, ok := g.keepPhiLit[phi]; ok && len(v.S) == 1 {
				nv := *v
				nv.S = []string{lit}
				v = &nv
			}
		}
		// keep closure identity etc.
		g.vals[phi] = v
		if phi.Comment != "" {
			phiHead[phi.Comment] = v
		}
		phiHead["$"+phi.Name()] = v
		// pointer-typed loop variables denote allocated objects
		g.assumeRaw(g.wellFormed(v, g.nextobj, true))
	}
	li.headHeap = copyMap(g.heap)
	li.headNextobj = g.nextobj
	li.headGhost = copyMap(g.ghost)
	g.stablePaths(li, false, pos)
	// 3. assume invariants
	env = g.loopEnv(li, phiHead)
	for _, c := range li.spec.Inv {
		t := g.specBool(env, c.E)
		g.assume(t)
	}
	if li.spec.Dec != nil {
		d := g.specVal(env, li.spec.Dec.E)
		if d != nil {
			li.decAtHead = g.def("variant", "Int", d.S[0])
		}
	}
}

// backEdge checks invariant preservation and the variant on the edge cur -> header.
func (g *Gen) backEdge(li *loopInfo, cond string, pos token.Pos) {
	phiVals := map[string]*Val{}
	for _, ins := range li.header.Instrs {
		phi, ok := ins.(*ssa.Phi)
		if !ok {
			break
		}
		op := g.phiOperand(phi, g.cur)
		v := g.val(op)
		// unsigned induction variable i+c: present the successor syntactically (i + c) once it is shown not to wrap,
		// so that successor-triggered spec axioms can fire
		if bo, ok := op.(*ssa.BinOp); ok && bo.Op == token.ADD && bo.X == ssa.Value(phi) {
			if c, isC := constOf(bo.Y); isC {
				if _, signed, isInt := intInfo(phi.Type()); isInt && !signed {
					term := fmt.Sprintf("(+ %s %s)", g.val(phi).S[0], smtInt(c))
					g.oblige("ovf", fmt.Sprintf("(= %s %s)", term, v.S[0]), pos, "unsigned loop counter does not wrap", nil)
					nv := *v
					nv.S = []string{term}
					v = &nv
				}
			}
		}
		if phi.Comment != "" {
			phiVals[phi.Comment] = v
		}
		phiVals["$"+phi.Name()] = v
	}
	saved := g.reach
	if cond != "true" {
		g.reach = g.def("reach_back", "Bool", and(g.reach, cond))
	}
	g.stablePaths(li, true, pos)
	env := g.loopEnv(li, phiVals)
	env.goal = true
	for _, c := range li.spec.Inv {
		t := g.specBool(env, c.E)
		g.obligeNamed(fmt.Sprintf("%s#%s.keep", g.unit, c.Name), "inv.keep", t, pos, "loop invariant is preserved: "+c.Text, c.Props)
	}
	for _, kn := range li.spec.Keeps {
		if li.headGhost != nil && g.ghost[kn] != li.headGhost[kn] {
			g.obligeNamed(fmt.Sprintf("%s#keeps%d.%s", g.unit, li.ordinal, sanitize(kn)), "inv.keep", fmt.Sprintf("(= %s %s)", g.ghost[kn], li.headGhost[kn]), pos, "ghost variable "+kn+" is unchanged by the loop (loop keeps)", nil)
		}
	}
	if li.spec.Dec != nil && li.decAtHead != "" {
		d := g.specVal(env, li.spec.Dec.E)
		if d != nil {
			goal := fmt.Sprintf("(and (>= %s 0) (< %s %s))", li.decAtHead, d.S[0], li.decAtHead)
			g.obligeNamed(fmt.Sprintf("%s#%s", g.unit, li.spec.Dec.Name), "variant", goal, pos, "loop variant decreases and is bounded: "+li.spec.Dec.Text, li.spec.Dec.Props)
		}
	}
	g.reach = saved
}

// ---------- instructions ----------

func (g *Gen) instr(ins ssa.Instruction) {
	// ghost statements attached to the start of a loop body (first block entered from the header inside the loop)
	if len(g.ct.Ats) > 0 && ins == firstNonPhi(ins.Block()) {
		b := ins.Block()
		for _, p := range b.Preds {
			if li := g.loops[p]; li != nil && li.body[b] && len(p.Succs) == 2 && p.Succs[0] == b {
				g.atLoopBody(li, ins)
			}
		}
	}
	switch x := ins.(type) {
	case *ssa.DebugRef:
		return
	case *ssa.Alloc:
		obj := g.allocAt(x)
		g.vals[x] = &Val{T: x.Type(), Sort: "Ptr", S: []string{obj, "0"}}
	case *ssa.Store:
		// opaque view: z[k] = v on a scalar-field element replaces the one opaque cell by an unknown value whose k-th
		// Montgomery limb is v and whose other limbs are unchanged (spec/frmlimb.smt2: fr_mlimb)
		if ia, ok := x.Addr.(*ssa.IndexAddr); ok {
			if pt, ok := ia.X.Type().Underlying().(*types.Pointer); ok && g.lay.view.opaqueSort(pt.Elem()) == "Fr" {
				bp := g.val(ia.X)
				g.nilCheck(bp, x.Pos(), "store")
				_ = g.val(x.Addr) // index-in-range obligation
				idx := g.val(ia.Index).S[0]
				oldc := g.def("oldcell", "Fr", sel2(g.heap["Fr"], bp.S[0], bp.S[1]))
				nc := g.freshConst("limbstore", "Fr")
				g.assume(fmt.Sprintf("(forall ((j Int)) (! (= (fr_mlimb %s j) (ite (= j %s) %s (fr_mlimb %s j))) :pattern ((fr_mlimb %s j))))", nc, idx, g.val(x.Val).S[0], oldc, nc))
				g.heap["Fr"] = g.def("HFr", g.heapSort("Fr"), store2(g.heap["Fr"], bp.S[0], bp.S[1], nc))
				g.eng.onStore(g, x, bp)
				g.atPoint("store", "", x, x.Pos())
				return
			}
		}
		addr := g.val(x.Addr)
		g.nilCheck(addr, x.Pos(), "store")
		elem := x.Addr.Type().Underlying().(*types.Pointer).Elem()
		g.store(elem, addr.S[0], addr.S[1], g.val(x.Val))
		g.eng.onStore(g, x, addr)
		g.atPoint("store", "", x, x.Pos())
	case *ssa.UnOp:
		g.vals[x] = g.unop(x)
	case *ssa.BinOp:
		g.vals[x] = g.binop(x)
	case *ssa.FieldAddr:
		p := g.val(x.X)
		g.nilCheck(p, x.Pos(), "field access")
		st := x.X.Type().Underlying().(*types.Pointer).Elem().Underlying().(*types.Struct)
		g.vals[x] = &Val{T: x.Type(), Sort: "Ptr", S: []string{p.S[0], addOff(p.S[1], g.lay.FieldOff(st, x.Field))}}
	case *ssa.Field:
		v := g.val(x.X)
		st := x.X.Type().Underlying().(*types.Struct)
		off := g.lay.FieldOff(st, x.Field)
		ft := st.Field(x.Field).Type()
		n := g.lay.Size(ft)
		g.vals[x] = g.valFromCells2(ft, g.cellsOf(v)[off:off+n])
	case *ssa.IndexAddr:
		g.vals[x] = g.indexAddr(x)
	case *ssa.Index:
		g.vals[x] = g.indexVal(x)
	case *ssa.Slice:
		g.vals[x] = g.sliceOp(x)
	case *ssa.Phi:
		return
	case *ssa.Call:
		g.curCall = x
		g.vals[x] = g.call(x, x.Common(), x.Pos())
		g.curCall = nil
		if callee := x.Common().StaticCallee(); callee != nil {
			g.atPoint("call", callee.Name(), x, x.Pos())
		} else if b, isB := x.Common().Value.(*ssa.Builtin); isB {
			g.atPoint("call", b.Name(), x, x.Pos()) // builtins (copy, append, ...) are program points too
		}
	case *ssa.Extract:
		t := g.val(x.Tuple)
		if t.Tuple == nil || x.Index >= len(t.Tuple) {
			g.errs = append(g.errs, "extract from non-tuple "+x.Tuple.Name())
			g.vals[x] = g.havocVal(x.Type(), "extract")
			return
		}
		g.vals[x] = t.Tuple[x.Index]
	case *ssa.Convert:
		g.vals[x] = g.convert(x)
	case *ssa.ChangeType:
		v := *g.val(x.X)
		v.T = x.Type()
		g.vals[x] = &v
	case *ssa.ChangeInterface:
		v := *g.val(x.X)
		v.T = x.Type()
		g.vals[x] = &v
	case *ssa.MakeInterface:
		// an interface value holding a concrete value: fresh non-nil reference, except that
		// pointers keep their identity (ref := obj) so that interface-held objects stay addressable
		src := g.val(x.X)
		if _, isPtr := x.X.Type().Underlying().(*types.Pointer); isPtr {
			g.vals[x] = &Val{T: x.Type(), Sort: "Int", S: []string{src.S[0]}}
			return
		}
		if g.isAgg(x.X.Type()) && g.lay.Size(x.X.Type()) > 0 {
			// boxing an array/struct value: the interface refers to a fresh object holding a copy
			var obj string
			if h, ok := g.hoisted[x]; ok {
				obj = h
			} else {
				obj = g.alloc("box")
			}
			g.store(x.X.Type(), obj, "0", src)
			g.vals[x] = &Val{T: x.Type(), Sort: "Int", S: []string{obj}}
			return
		}
		id := g.freshConst("iface", "Int")
		g.assumeRaw(fmt.Sprintf("(>= %s 1)", id))
		g.vals[x] = &Val{T: x.Type(), Sort: "Int", S: []string{id}}
	case *ssa.MakeSlice:
		ln := g.val(x.Len)
		cp := g.val(x.Cap)
		g.oblige("slice", fmt.Sprintf("(and (<= 0 %s) (<= %s %s))", ln.S[0], ln.S[0], cp.S[0]), x.Pos(), "make: 0 <= len <= cap", nil)
		obj := g.alloc("make")
		g.vals[x] = &Val{T: x.Type(), Sort: "Slice", S: []string{obj, "0", ln.S[0], cp.S[0]}}
	case *ssa.MakeClosure:
		id := g.freshConst("closure", "Int")
		g.assumeRaw(fmt.Sprintf("(>= %s 1)", id))
		g.vals[x] = &Val{T: x.Type(), Sort: "Int", S: []string{id}, Clos: x, Fn: x.Fn.(*ssa.Function)}
	case *ssa.MakeMap:
		id := g.alloc("ref")
		g.vals[x] = &Val{T: x.Type(), Sort: "Int", S: []string{id}}
		g.eng.onMake(g, x, id)
	case *ssa.MakeChan:
		id := g.alloc("ref")
		g.vals[x] = &Val{T: x.Type(), Sort: "Int", S: []string{id}}
		g.eng.onMake(g, x, id)
	case *ssa.Jump:
		g.terminator([]string{"true"}, x.Pos())
	case *ssa.If:
		c := g.val(x.Cond).S[0]
		g.terminator([]string{c, not(c)}, x.Pos())
	case *ssa.Return:
		g.doReturn(x)
		g.saveState(nil)
	case *ssa.Panic:
		g.doPanic(x)
		g.saveState(nil)
	case *ssa.RunDefers:
		return
	case *ssa.Go:
		g.eng.onGo(g, x)
		g.atPoint("go", "", x, x.Pos())
	case *ssa.Send:
		g.eng.onSend(g, x)
	case *ssa.Range:
		g.vals[x] = g.eng.onRange(g, x)
	case *ssa.Next:
		g.vals[x] = g.eng.onNext(g, x)
	case *ssa.MapUpdate:
		g.eng.onMapUpdate(g, x)
	case *ssa.Lookup:
		g.vals[x] = g.eng.onLookup(g, x)
	case *ssa.TypeAssert:
		g.vals[x] = g.eng.onTypeAssert(g, x)
	case *ssa.SliceToArrayPointer:
		s := g.val(x.X)
		n := x.Type().Underlying().(*types.Pointer).Elem().Underlying().(*types.Array).Len()
		g.oblige("slice", fmt.Sprintf("(>= %s %d)", s.S[2], n), x.Pos(), "slice to array pointer: length", nil)
		g.vals[x] = &Val{T: x.Type(), Sort: "Ptr", S: []string{s.S[0], s.S[1]}}
	case *ssa.Defer, *ssa.Select:
		g.errs = append(g.errs, fmt.Sprintf("outside subset: %T", ins))
	default:
		g.errs = append(g.errs, fmt.Sprintf("unsupported instruction %T: %s", ins, ins))
		if v, ok := ins.(ssa.Value); ok {
			g.vals[v] = g.havocVal(v.Type(), "unsupported")
		}
	}
}

func (g *Gen) valFromCells2(t types.Type, cells []string) *Val { return g.valFromCells(t, cells) }

func (g *Gen) terminator(conds []string, pos token.Pos) {
	b := g.cur
	for i, s := range b.Succs {
		if g.isBackEdge(b, s) {
			li := g.loops[s]
			if li != nil && li.spec.UnrollN == 0 {
				g.backEdge(li, conds[i], pos)
			}
		}
	}
	g.saveState(conds)
}

func (g *Gen) nilCheck(p *Val, pos token.Pos, what string) {
	if len(p.S) < 1 {
		return
	}
	if isLiteralObj(p.S[0]) {
		return
	}
	g.oblige("nil", fmt.Sprintf("(>= %s 1)", p.S[0]), pos, "nil dereference: "+what, nil)
}

func isLiteralObj(s string) bool {
	return strings.HasPrefix(s, "obj_") || (len(s) > 0 && s[0] >= '1' && s[0] <= '9')
}

func (g *Gen) unop(x *ssa.UnOp) *Val {
	v := g.val(x.X)
	switch x.Op {
	case token.MUL: // load
		g.nilCheck(v, x.Pos(), "load")
		// opaque view: z[k] of a scalar-field element is the k-th Montgomery limb of the one opaque cell
		// (fr_mlimb of spec/frmlimb.smt2, which the unit must list as a prelude), not an unrelated integer cell
		if ia, ok := x.X.(*ssa.IndexAddr); ok {
			if pt, ok := ia.X.Type().Underlying().(*types.Pointer); ok && g.lay.view.opaqueSort(pt.Elem()) == "Fr" {
				bp := g.val(ia.X)
				idx := g.val(ia.Index).S[0]
				n := g.def("ld_"+x.Name(), "Int", fmt.Sprintf("(fr_mlimb %s %s)", sel2(g.heap["Fr"], bp.S[0], bp.S[1]), idx))
				g.assume(fmt.Sprintf("(and (<= 0 %s) (< %s 18446744073709551616))", n, n))
				return scalar("Int", n, x.Type())
			}
		}
		if _, _, isInt := intInfo(x.Type()); isInt && len(v.S) >= 2 {
			for _, cc := range g.cellConst {
				if cc[0] == v.S[0] && cc[1] == v.S[1] {
					g.oblige("constcell", fmt.Sprintf("(= %s %s)", sel2(g.heap["Int"], v.S[0], v.S[1]), cc[2]), x.Pos(),
						"the cell fixed by the contract's case split still holds its value at this load", nil)
					return scalar("Int", cc[2], x.Type())
				}
			}
		}
		lv := g.loadFrom(g.heap, x.Type(), v.S[0], v.S[1])
		// name the cells to keep terms small, and assume type ranges of what was loaded
		named := make([]string, len(lv.S))
		cs := g.lay.Cells(x.Type())
		if lv.Sort == "Bool" {
			n := g.def("ld_"+x.Name(), "Bool", lv.S[0])
			return &Val{T: lv.T, Sort: "Bool", S: []string{n}}
		}
		for i, t := range lv.S {
			named[i] = g.def("ld_"+x.Name(), cs[i].Sort, t)
		}
		g.assumeRange(g.cellRanges(x.Type(), named), true)
		out := g.valFromCells(x.Type(), named)
		g.assume(g.wellFormedLoaded(out))
		return out
	case token.NOT:
		return scalar("Bool", not(v.S[0]), x.Type())
	case token.SUB:
		bits, signed, _ := intInfo(x.Type())
		if signed {
			g.oblige("ovf", fmt.Sprintf("(> %s (- %s))", v.S[0], pow2s(bits-1)), x.Pos(), "negation overflow", nil)
			return scalar("Int", fmt.Sprintf("(- %s)", v.S[0]), x.Type())
		}
		return scalar("Int", fmt.Sprintf("(mod (- %s) %s)", v.S[0], pow2s(bits)), x.Type())
	case token.XOR:
		bits, signed, _ := intInfo(x.Type())
		if signed {
			return scalar("Int", fmt.Sprintf("(- (- %s) 1)", v.S[0]), x.Type())
		}
		return scalar("Int", fmt.Sprintf("(- %s %s)", new(big.Int).Sub(new(big.Int).Lsh(big.NewInt(1), uint(bits)), big.NewInt(1)).String(), v.S[0]), x.Type())
	case token.ARROW:
		return g.eng.onRecv(g, x)
	}
	g.errs = append(g.errs, "unsupported unop "+x.Op.String())
	return g.havocVal(x.Type(), "unop")
}

func (g *Gen) wellFormedLoaded(v *Val) string {
	if v.Tuple != nil || len(v.S) == 0 {
		return "true"
	}
	cs := g.lay.Cells(v.T)
	if len(cs) != len(v.S) {
		return "true"
	}
	var ps []string
	for i, c := range cs {
		if c.Role == "obj" || c.Role == "ref" {
			ps = append(ps, fmt.Sprintf("(< %s %s)", v.S[i], g.nextobj))
		}
	}
	if _, ok := v.T.Underlying().(*types.Slice); ok && g.view.opaqueSort(v.T) == "" {
		ps = append(ps, fmt.Sprintf("(<= %s %s)", v.S[2], v.S[3]))
		ps = append(ps, fmt.Sprintf("(< %s 9223372036854775808)", v.S[3]))
		ps = append(ps, fmt.Sprintf("(or (>= %s 1) (= %s 0))", v.S[0], v.S[3]))
	}
	return and(ps...)
}

func (g *Gen) indexAddr(x *ssa.IndexAddr) *Val {
	base := g.val(x.X)
	idx := g.val(x.Index).S[0]
	var elem types.Type
	var lenTerm string
	switch u := x.X.Type().Underlying().(type) {
	case *types.Pointer:
		arr := u.Elem().Underlying().(*types.Array)
		elem = arr.Elem()
		lenTerm = fmt.Sprint(arr.Len())
		g.nilCheck(base, x.Pos(), "index")
	case *types.Slice:
		elem = u.Elem()
		lenTerm = base.S[2]
	}
	g.oblige("idx", fmt.Sprintf("(and (<= 0 %s) (< %s %s))", idx, idx, lenTerm), x.Pos(), fmt.Sprintf("index %s in range", x.Index.Name()), nil)
	sz := g.lay.Size(elem)
	off := g.mulAdd(base.S[1], idx, sz)
	return &Val{T: x.Type(), Sort: "Ptr", S: []string{base.S[0], off}}
}

func (g *Gen) mulAdd(off, idx string, sz int) string {
	if isNum(idx) {
		n, _ := new(big.Int).SetString(idx, 10)
		n.Mul(n, big.NewInt(int64(sz)))
		if n.Sign() == 0 {
			return off
		}
		if off == "0" {
			return n.String()
		}
		return fmt.Sprintf("(+ %s %s)", off, n.String())
	}
	if sz == 1 {
		if off == "0" {
			return idx
		}
		return fmt.Sprintf("(+ %s %s)", off, idx)
	}
	return fmt.Sprintf("(+ %s (* %d %s))", off, sz, idx)
}

func isNum(s string) bool {
	if s == "" {
		return false
	}
	for _, c := range s {
		if c < '0' || c > '9' {
			return false
		}
	}
	return true
}

func (g *Gen) indexVal(x *ssa.Index) *Val {
	base := g.val(x.X)
	idx := g.val(x.Index).S[0]
	arr, ok := x.X.Type().Underlying().(*types.Array)
	if !ok {
		g.errs = append(g.errs, "index of non-array value")
		return g.havocVal(x.Type(), "index")
	}
	g.oblige("idx", fmt.Sprintf("(and (<= 0 %s) (< %s %d))", idx, idx, arr.Len()), x.Pos(), "index in range", nil)
	sz := g.lay.Size(arr.Elem())
	cells := g.cellsOf(base)
	if isNum(idx) {
		var k int
		fmt.Sscan(idx, &k)
		return g.valFromCells(arr.Elem(), cells[k*sz:(k+1)*sz])
	}
	// symbolic index into an array value: ite chain
	out := make([]string, sz)
	cs := g.lay.Cells(arr.Elem())
	for c := 0; c < sz; c++ {
		t := cells[(int(arr.Len())-1)*sz+c]
		for k := int(arr.Len()) - 2; k >= 0; k-- {
			t = fmt.Sprintf("(ite (= %s %d) %s %s)", idx, k, cells[k*sz+c], t)
		}
		out[c] = g.def("idxv", cs[c].Sort, t)
	}
	return g.valFromCells(arr.Elem(), out)
}

func (g *Gen) sliceOp(x *ssa.Slice) *Val {
	base := g.val(x.X)
	var obj, off, ln, cp string
	var elem types.Type
	switch u := x.X.Type().Underlying().(type) {
	case *types.Pointer:
		arr := u.Elem().Underlying().(*types.Array)
		g.nilCheck(base, x.Pos(), "slice of array pointer")
		obj, off, ln, cp = base.S[0], base.S[1], fmt.Sprint(arr.Len()), fmt.Sprint(arr.Len())
		elem = arr.Elem()
	case *types.Slice:
		obj, off, ln, cp = base.S[0], base.S[1], base.S[2], base.S[3]
		elem = u.Elem()
	case *types.Basic: // string
		g.errs = append(g.errs, "string slicing unsupported")
		return g.havocVal(x.Type(), "strslice")
	}
	lo, hi, mx := "0", ln, cp
	if x.Low != nil {
		lo = g.val(x.Low).S[0]
	}
	if x.High != nil {
		hi = g.val(x.High).S[0]
	}
	if x.Max != nil {
		mx = g.val(x.Max).S[0]
	}
	g.oblige("slice", fmt.Sprintf("(and (<= 0 %s) (<= %s %s) (<= %s %s) (<= %s %s))", lo, lo, hi, hi, mx, mx, cp), x.Pos(), "slice bounds in range", nil)
	sz := g.lay.Size(elem)
	noff := g.mulAdd(off, lo, sz)
	nlen := simplSub(hi, lo)
	ncap := simplSub(mx, lo)
	return &Val{T: x.Type(), Sort: "Slice", S: []string{obj, noff, nlen, ncap}}
}

func simplSub(a, b string) string {
	if b == "0" {
		return a
	}
	if isNum(a) && isNum(b) {
		x, _ := new(big.Int).SetString(a, 10)
		y, _ := new(big.Int).SetString(b, 10)
		return smtInt(x.Sub(x, y))
	}
	return fmt.Sprintf("(- %s %s)", a, b)
}

func (g *Gen) convert(x *ssa.Convert) *Val {
	v := g.val(x.X)
	from, to := x.X.Type(), x.Type()
	tb, tsigned, tok := intInfo(to)
	fb, fsigned, fok := intInfo(from)
	if tok && fok {
		t := v.S[0]
		if tb == 0 {
			return scalar("Int", t, to)
		}
		// widening of same signedness or unsigned->wider signed needs no wrap
		if (fsigned == tsigned && fb != 0 && fb <= tb) || (!fsigned && tsigned && fb != 0 && fb < tb) {
			return scalar("Int", t, to)
		}
		if !tsigned {
			return scalar("Int", g.def("conv", "Int", fmt.Sprintf("(mod %s %s)", t, pow2s(tb))), to)
		}
		// to signed with possible wrap
		return scalar("Int", g.def("conv", "Int", fmt.Sprintf("(- (mod (+ %s %s) %s) %s)", t, pow2s(tb-1), pow2s(tb), pow2s(tb-1))), to)
	}
	// string <-> []byte, floats, unsafe pointers: abstract
	if _, ok := to.Underlying().(*types.Slice); ok {
		// []byte(string): fresh slice whose content is the string's bytes (abstract)
		obj := g.alloc("strbytes")
		ln := g.freshConst("strlen", "Int")
		g.assumeRaw(fmt.Sprintf("(= %s (strlen %s))", ln, v.S[0]))
		g.use("str")
		// the content is the string's bytes: an arbitrary row, tied to the string by strbytes in the bytes model
		row := g.freshConst("strrow", "(Array Int Int)")
		g.heap["Int"] = g.def("HInt", g.heapSort("Int"), fmt.Sprintf("(store %s %s %s)", g.heap["Int"], obj, row))
		if g.view.Bytes {
			g.assumeRaw(fmt.Sprintf("(= (bseq %s 0 %s) (strbytes %s))", row, ln, v.S[0]))
		}
		return &Val{T: to, Sort: "Slice", S: []string{obj, "0", ln, ln}}
	}
	return g.havocVal(to, "conv")
}

// ---------- integer operators ----------

func constOf(v ssa.Value) (*big.Int, bool) {
	c, ok := v.(*ssa.Const)
	if !ok || c.Value == nil {
		return nil, false
	}
	bi, ok2 := new(big.Int).SetString(c.Value.ExactString(), 10)
	return bi, ok2
}

func isPow2(n *big.Int) (int, bool) {
	if n.Sign() <= 0 {
		return 0, false
	}
	k := n.BitLen() - 1
	if new(big.Int).Lsh(big.NewInt(1), uint(k)).Cmp(n) == 0 {
		return k, true
	}
	return 0, false
}

// shlOne recognises 1<<k and returns k's term.
func (g *Gen) shlOne(v ssa.Value) (string, bool) {
	if c, ok := v.(*ssa.Convert); ok {
		return g.shlOne(c.X)
	}
	b, ok := v.(*ssa.BinOp)
	if !ok || b.Op != token.SHL {
		return "", false
	}
	if c, ok := constOf(b.X); ok && c.Cmp(big.NewInt(1)) == 0 {
		return g.val(b.Y).S[0], true
	}
	return "", false
}

// pow2Minus1 recognises (1<<k)-1.
func (g *Gen) pow2Minus1(v ssa.Value) (string, bool) {
	if c, ok := v.(*ssa.Convert); ok {
		return g.pow2Minus1(c.X)
	}
	b, ok := v.(*ssa.BinOp)
	if !ok || b.Op != token.SUB {
		return "", false
	}
	if c, ok := constOf(b.Y); ok && c.Cmp(big.NewInt(1)) == 0 {
		return g.shlOne(b.X)
	}
	return "", false
}

func (g *Gen) pow2term(k string) string {
	if isNum(k) {
		var n int
		fmt.Sscan(k, &n)
		return pow2s(n)
	}
	g.use("pow2")
	return fmt.Sprintf("(pow2 %s)", k)
}

func (g *Gen) binop(x *ssa.BinOp) *Val {
	a, b := g.val(x.X), g.val(x.Y)
	t := x.Type()
	switch x.Op {
	case token.EQL, token.NEQ:
		eq := g.eqVals(a, b)
		if x.Op == token.NEQ {
			eq = not(eq)
		}
		return scalar("Bool", eq, t)
	case token.LSS, token.LEQ, token.GTR, token.GEQ:
		op := map[token.Token]string{token.LSS: "<", token.LEQ: "<=", token.GTR: ">", token.GEQ: ">="}[x.Op]
		if _, _, ok := intInfo(x.X.Type()); !ok {
			return g.havocVal(t, "cmp")
		}
		if isNum(a.S[0]) && isNum(b.S[0]) {
			// comparison of numerals (concrete counters of unrolled loops): decided here, so that infeasible loop exits
			// are not recorded
			xa, _ := new(big.Int).SetString(a.S[0], 10)
			xb, _ := new(big.Int).SetString(b.S[0], 10)
			c := xa.Cmp(xb)
			r := map[string]bool{"<": c < 0, "<=": c <= 0, ">": c > 0, ">=": c >= 0}[op]
			if r {
				return scalar("Bool", "true", t)
			}
			return scalar("Bool", "false", t)
		}
		return scalar("Bool", fmt.Sprintf("(%s %s %s)", op, a.S[0], b.S[0]), t)
	case token.LAND:
		return scalar("Bool", and(a.S[0], b.S[0]), t)
	case token.LOR:
		return scalar("Bool", or(a.S[0], b.S[0]), t)
	}
	if isBoolT(t) {
		// & | ^ on booleans are not produced by the compiler front end here
		g.errs = append(g.errs, "boolean bit operator")
		return g.havocVal(t, "boolop")
	}
	bits, signed, ok := intInfo(t)
	if !ok {
		// floats etc: abstracted
		return g.havocVal(t, "arith")
	}
	A, B := a.S[0], b.S[0]
	wrap := func(raw string, what string) *Val {
		if bits == 0 {
			return scalar("Int", raw, t)
		}
		if signed {
			r := g.def("s"+x.Name(), "Int", raw)
			g.oblige("ovf", rangePred(r, t), x.Pos(), "signed "+what+" does not overflow (machine int treated as mathematical)", nil)
			return scalar("Int", r, t)
		}
		return scalar("Int", g.def("u"+x.Name(), "Int", fmt.Sprintf("(mod %s %s)", raw, pow2s(bits))), t)
	}
	// both operands are numerals (concrete counters of unrolled loops): compute, when the result is in range
	if isNum(A) && isNum(B) && B != "0" && (x.Op == token.QUO || x.Op == token.REM) { // numerals are non-negative: truncation == floor
		xa, _ := new(big.Int).SetString(A, 10)
		xb, _ := new(big.Int).SetString(B, 10)
		if x.Op == token.QUO {
			return scalar("Int", new(big.Int).Div(xa, xb).String(), t)
		}
		return scalar("Int", new(big.Int).Mod(xa, xb).String(), t)
	}
	if isNum(A) && isNum(B) && (x.Op == token.ADD || x.Op == token.SUB || x.Op == token.MUL) {
		xa, _ := new(big.Int).SetString(A, 10)
		xb, _ := new(big.Int).SetString(B, 10)
		r := new(big.Int)
		switch x.Op {
		case token.ADD:
			r.Add(xa, xb)
		case token.SUB:
			r.Sub(xa, xb)
		case token.MUL:
			r.Mul(xa, xb)
		}
		lo, hi := big.NewInt(0), new(big.Int).Lsh(big.NewInt(1), 63)
		if bits != 0 && !signed {
			hi = new(big.Int).Lsh(big.NewInt(1), uint(bits))
		} else if bits != 0 {
			hi = new(big.Int).Lsh(big.NewInt(1), uint(bits-1))
		}
		if r.Cmp(lo) >= 0 && r.Cmp(hi) < 0 {
			return scalar("Int", r.String(), t)
		}
	}
	switch x.Op {
	case token.ADD:
		return wrap(fmt.Sprintf("(+ %s %s)", A, B), "addition")
	case token.SUB:
		return wrap(fmt.Sprintf("(- %s %s)", A, B), "subtraction")
	case token.MUL:
		return wrap(fmt.Sprintf("(* %s %s)", A, B), "multiplication")
	case token.QUO:
		g.oblige("div", fmt.Sprintf("(not (= %s 0))", B), x.Pos(), "division by zero", nil)
		if !signed {
			return scalar("Int", g.def("q"+x.Name(), "Int", fmt.Sprintf("(div %s %s)", A, B)), t)
		}
		q := g.def("q"+x.Name(), "Int", truncDiv(A, B))
		return scalar("Int", q, t)
	case token.REM:
		g.oblige("div", fmt.Sprintf("(not (= %s 0))", B), x.Pos(), "division by zero", nil)
		if !signed {
			return scalar("Int", g.def("r"+x.Name(), "Int", fmt.Sprintf("(mod %s %s)", A, B)), t)
		}
		return scalar("Int", g.def("r"+x.Name(), "Int", fmt.Sprintf("(- %s (* %s %s))", A, B, truncDiv(A, B))), t)
	case token.SHL:
		g.shiftCountCheck(x)
		if c, ok := constOf(x.Y); ok {
			k := int(c.Int64())
			if bits != 0 && k >= bits {
				return scalar("Int", "0", t)
			}
			return wrap(fmt.Sprintf("(* %s %s)", A, pow2s(k)), "shift")
		}
		raw := fmt.Sprintf("(* %s %s)", A, g.pow2term(B))
		if bits != 0 && !signed {
			return scalar("Int", g.def("u"+x.Name(), "Int", fmt.Sprintf("(ite (>= %s %d) 0 (mod %s %s))", B, bits, raw, pow2s(bits))), t)
		}
		if bits != 0 {
			g.oblige("ovf", fmt.Sprintf("(< %s %d)", B, bits), x.Pos(), "shift count below width", nil)
		}
		return wrap(raw, "shift")
	case token.SHR:
		g.shiftCountCheck(x)
		if c, ok := constOf(x.Y); ok {
			k := int(c.Int64())
			if bits != 0 && k >= bits && !signed {
				return scalar("Int", "0", t)
			}
			return scalar("Int", g.def("u"+x.Name(), "Int", fmt.Sprintf("(div %s %s)", A, pow2s(k))), t)
		}
		if !signed && bits != 0 {
			return scalar("Int", g.def("u"+x.Name(), "Int", fmt.Sprintf("(ite (>= %s %d) 0 (div %s %s))", B, bits, A, g.pow2term(B))), t)
		}
		return scalar("Int", g.def("u"+x.Name(), "Int", fmt.Sprintf("(div %s %s)", A, g.pow2term(B))), t)
	case token.AND:
		for _, pr := range [][2]ssa.Value{{x.X, x.Y}, {x.Y, x.X}} {
			other := g.val(pr[0]).S[0]
			if c, ok := constOf(pr[1]); ok && !signed {
				if c.Sign() == 0 {
					return scalar("Int", "0", t)
				}
				c1 := new(big.Int).Add(c, big.NewInt(1))
				if k, ok := isPow2(c1); ok { // low mask
					if bits != 0 && k >= bits {
						return scalar("Int", other, t)
					}
					return scalar("Int", g.def("u"+x.Name(), "Int", fmt.Sprintf("(mod %s %s)", other, pow2s(k))), t)
				}
				if k, ok := isPow2(c); ok { // single bit
					return scalar("Int", g.def("u"+x.Name(), "Int", fmt.Sprintf("(* (mod (div %s %s) 2) %s)", other, pow2s(k), pow2s(k))), t)
				}
			}
			if c, ok := constOf(pr[1]); ok && signed && c.Sign() > 0 {
				c1 := new(big.Int).Add(c, big.NewInt(1))
				if k, ok := isPow2(c1); ok {
					return scalar("Int", g.def("u"+x.Name(), "Int", fmt.Sprintf("(mod %s %s)", other, pow2s(k))), t)
				}
				if k, ok := isPow2(c); ok {
					return scalar("Int", g.def("u"+x.Name(), "Int", fmt.Sprintf("(* (mod (div %s %s) 2) %s)", other, pow2s(k), pow2s(k))), t)
				}
			}
			if k, ok := g.pow2Minus1(pr[1]); ok {
				return scalar("Int", g.def("u"+x.Name(), "Int", fmt.Sprintf("(mod %s %s)", other, g.pow2term(k))), t)
			}
			if k, ok := g.shlOne(pr[1]); ok {
				p := g.pow2term(k)
				return scalar("Int", g.def("u"+x.Name(), "Int", fmt.Sprintf("(* (mod (div %s %s) 2) %s)", other, p, p)), t)
			}
		}
		// x & (x-1) and other general forms: uninterpreted with sound bounds
		g.use("bitfns")
		r := g.def("u"+x.Name(), "Int", fmt.Sprintf("(bitand %s %s)", A, B))
		if !signed {
			g.assume(fmt.Sprintf("(and (<= 0 %s) (<= %s %s) (<= %s %s))", r, r, A, r, B))
		}
		return scalar("Int", r, t)
	case token.OR:
		if s, ok := g.disjointOr(x); ok {
			return scalar("Int", g.def("u"+x.Name(), "Int", s), t)
		}
		g.use("bitfns")
		r := g.def("u"+x.Name(), "Int", fmt.Sprintf("(bitor %s %s)", A, B))
		if !signed {
			g.assume(fmt.Sprintf("(and (>= %s %s) (>= %s %s) (<= %s (+ %s %s)) (= (= %s 0) (and (= %s 0) (= %s 0))))", r, A, r, B, r, A, B, r, A, B))
			g.assume(rangePred(r, t))
		}
		return scalar("Int", r, t)
	case token.XOR:
		g.use("bitfns")
		r := g.def("u"+x.Name(), "Int", fmt.Sprintf("(bitxor %s %s)", A, B))
		g.assume(rangePred(r, t))
		return scalar("Int", r, t)
	case token.AND_NOT:
		g.use("bitfns")
		r := g.def("u"+x.Name(), "Int", fmt.Sprintf("(bitandnot %s %s)", A, B))
		if !signed {
			g.assume(fmt.Sprintf("(and (<= 0 %s) (<= %s %s))", r, r, A))
		}
		return scalar("Int", r, t)
	}
	g.errs = append(g.errs, "unsupported binop "+x.Op.String())
	return g.havocVal(t, "binop")
}

// disjointOr recognises (a >> k) | (b << (w-k)) (bit-disjoint, so | is +).
func (g *Gen) disjointOr(x *ssa.BinOp) (string, bool) {
	bits, signed, _ := intInfo(x.Type())
	if signed || bits == 0 {
		return "", false
	}
	for _, pr := range [][2]ssa.Value{{x.X, x.Y}, {x.Y, x.X}} {
		l, ok1 := pr[0].(*ssa.BinOp)
		r, ok2 := pr[1].(*ssa.BinOp)
		if !ok1 || !ok2 || l.Op != token.SHR || r.Op != token.SHL {
			continue
		}
		ck, okk := constOf(l.Y)
		cj, okj := constOf(r.Y)
		if !okk || !okj {
			continue
		}
		if int(ck.Int64())+int(cj.Int64()) >= bits && ck.Int64() >= 0 {
			// (a>>k) < 2^(w-k) <= 2^j, and (b<<j) is a multiple of 2^j
			return fmt.Sprintf("(+ %s %s)", g.val(l).S[0], g.val(r).S[0]), true
		}
	}
	return "", false
}

func (g *Gen) shiftCountCheck(x *ssa.BinOp) {
	_, signed, ok := intInfo(x.Y.Type())
	if ok && signed {
		if c, isC := constOf(x.Y); isC && c.Sign() >= 0 {
			return
		}
		g.oblige("shift", fmt.Sprintf("(>= %s 0)", g.val(x.Y).S[0]), x.Pos(), "negative shift count panics", nil)
	}
}

func truncDiv(a, b string) string {
	return fmt.Sprintf("(ite (>= %s 0) (ite (> %s 0) (div %s %s) (- (div %s (- %s)))) (ite (> %s 0) (- (div (- %s) %s)) (div (- %s) (- %s))))", a, b, a, b, a, b, b, a, b, a, b)
}

func (g *Gen) eqVals(a, b *Val) string {
	if len(a.S) != len(b.S) {
		g.errs = append(g.errs, fmt.Sprintf("comparison of values with different shapes (%v vs %v)", a.T, b.T))
		return g.freshConst("cmp", "Bool")
	}
	// slices can only be compared with nil: compare the object id
	if a.Sort == "Slice" || b.Sort == "Slice" {
		return fmt.Sprintf("(= %s %s)", a.S[0], b.S[0])
	}
	var ps []string
	for i := range a.S {
		if a.Sort == "Bool" {
			ps = append(ps, fmt.Sprintf("(= %s %s)", a.S[i], b.S[i]))
		} else {
			ps = append(ps, fmt.Sprintf("(= %s %s)", a.S[i], b.S[i]))
		}
	}
	return and(ps...)
}

// ---------- return / panic ----------

// applyUsing restricts an obligation's context to the named facts.
func (g *Gen) applyUsing(o *Obligation, c *Clause) {
	if o == nil || len(c.Using) == 0 {
		return
	}
	o.Using = c.Using
	o.SinceLine = -1
	for _, u := range c.Using {
		if strings.HasPrefix(u, "since(") && strings.HasSuffix(u, ")") {
			m := strings.TrimSuffix(strings.TrimPrefix(u, "since("), ")")
			idx, ok := g.marks[m]
			if !ok {
				g.bindFail(fmt.Sprintf("clause %q uses unknown mark %q", c.Text, m))
				continue
			}
			if o.SinceLine < 0 || idx < o.SinceLine {
				o.SinceLine = idx
			}
			continue
		}
		f, ok := g.facts[u]
		if !ok {
			g.bindFail(fmt.Sprintf("clause %q uses unknown fact %q", c.Text, u))
			continue
		}
		o.UsingFacts = append(o.UsingFacts, f)
	}
}

func (g *Gen) doReturn(x *ssa.Return) {
	g.atPoint("return", "", x, x.Pos())
	results := map[string]*Val{}
	sig := g.fn.Signature
	for i, r := range x.Results {
		v := g.val(r)
		results[fmt.Sprintf("result%d", i)] = v
		if n := sig.Results().At(i).Name(); n != "" && n != "_" {
			results[n] = v
		}
		if _, isParam := g.params["result"]; len(x.Results) == 1 && !isParam {
			results["result"] = v
		}
		if isErrorType(sig.Results().At(i).Type()) {
			if _, taken := results["err"]; !taken {
				results["err"] = v
			}
		}
	}
	env := g.entryEnv()
	for k, v := range results {
		env.vars[k] = v
	}
	for k, v := range g.lets {
		env.vars[k] = v
	}
	env.heap = g.heap
	env.nextobj = g.nextobj
	env.ghost = g.ghost
	env.goal = true
	for _, c := range g.ct.Ensures {
		t := g.specBool(env, c.E)
		o := g.obligeNamed(fmt.Sprintf("%s#%s@ret%d", g.unit, c.Name, g.kcnt["ret"]), "post", t, x.Pos(), "postcondition: "+c.Text, c.Props)
		g.applyUsing(o, c)
	}
	g.frameCheck(env, x.Pos())
	g.eng.onReturn(g, x)
	if g.retStates == nil {
		g.retStates = map[int]retState{}
	}
	var resVals []*Val
	for _, r := range x.Results {
		resVals = append(resVals, g.val(r))
	}
	g.retStates[g.kcnt["ret"]] = retState{heapInt: g.heap["Int"], results: resVals}
	g.kcnt["ret"]++
}

// frameCheck: every pre-existing cell outside the modifies footprint is unchanged.
func (g *Gen) frameCheck(env *Env, pos token.Pos) {
	if g.ct.ModAny {
		return
	}
	entry := g.entryEnv()
	for _, s := range g.sorts {
		if g.heap[s] == g.H0[s] {
			continue
		}
		wild := false
		for _, ms := range g.ct.ModSorts {
			wild = wild || ms == s
		}
		if wild {
			continue
		}
		var inFoot []string
		for _, m := range g.ct.Modifies {
			fp := g.footprint(entry, m.E)
			for _, r := range fp {
				if !regionHasSort(r, s) {
					continue
				}
				inFoot = append(inFoot, fmt.Sprintf("(and (= o %s) (<= %s k) (< k %s))", r.obj, r.lo, r.hi))
			}
		}
		goal := fmt.Sprintf("(forall ((o Int) (k Int)) (=> (and (>= o 1) (< o nextobj0) (not %s)) (= (select (select %s o) k) (select (select %s o) k))))",
			or(inFoot...), g.heap[s], g.H0[s])
		g.obligeNamed(fmt.Sprintf("%s#frame.%s@ret%d", g.unit, s, g.kcnt["ret"]), "frame", goal, pos,
			"frame: nothing outside the modifies clause changes ("+s+" cells)", []string{"C13"})
	}
}

func (g *Gen) doPanic(x *ssa.Panic) {
	// an explicit panic must be unreachable unless the contract allows it
	if g.ct.Options["may_panic"] != "" {
		return
	}
	g.oblige("panic", "false", x.Pos(), "explicit panic is unreachable", nil)
}

// atPoint runs ghost statements attached to the program point just passed.
func (g *Gen) atPoint(kind, callee string, ins ssa.Instruction, pos token.Pos) {
	if len(g.ct.Ats) == 0 {
		return
	}
	key := kind + ":" + callee
	g.ensurePointCount()
	if false {
		g.pointCount = map[ssa.Instruction]int{}
		cnt := map[string]int{}
		// ordinals follow source order: blocks by index, instructions in order
		for _, b := range g.fn.Blocks {
			for _, i := range b.Instrs {
				switch y := i.(type) {
				case *ssa.Store:
					g.pointCount[i] = cnt["store:"]
					cnt["store:"]++
				case *ssa.Return:
					g.pointCount[i] = cnt["return:"]
					cnt["return:"]++
				case *ssa.Go:
					g.pointCount[i] = cnt["go:"]
					cnt["go:"]++
				case *ssa.Call:
					if c := y.Common().StaticCallee(); c != nil {
						g.pointCount[i] = cnt["call:"+c.Name()]
						cnt["call:"+c.Name()]++
					}
				}
			}
		}
	}
	ord, ok := g.pointCount[ins]
	if !ok {
		return
	}
	for _, as := range g.ct.Ats {
		if as.PointKind+":"+as.Callee != key || (as.Ordinal != ord && as.Ordinal != -1) {
			continue
		}
		g.markUsed(as)
		env := g.pointEnv(ins)
		switch as.Kind {
		case "assert":
			env.goal = true
			t := g.specBool(env, as.C.E)
			o := g.obligeNamed(fmt.Sprintf("%s#%s", g.unit, as.C.Name), "assert", t, pos, "ghost assertion: "+as.C.Text, as.C.Props)
			g.applyUsing(o, as.C)
			if as.C.Label != "" {
				g.facts[as.C.Label] = fmt.Sprintf("(=> %s %s)", g.reach, t)
			}
		case "inst":
			g.instFact(env, as)
		case "mark":
			g.marks[as.Name] = len(g.lines)
		case "set":
			if _, declared := g.ghost[as.Name]; !declared {
				g.bindFail("set of undeclared ghost variable " + as.Name)
				continue
			}
			v := g.specVal(env, as.C.E)
			if v != nil {
				g.ghost[as.Name] = g.def("gh_"+as.Name, g.ghostSortOf(as.Name), v.S[0])
			}
		case "ghost":
			v := g.specVal(env, as.C.E)
			if v != nil {
				// name the terms so that later heap changes do not affect the binding
				nv := *v
				nv.S = nil
				for i, t := range v.S {
					srt := "Int"
					if v.Sort == "Bool" || v.Sort == "Fp" || v.Sort == "Fr" || v.Sort == "Bytes" || v.Sort == "G" || strings.HasPrefix(v.Sort, "(Array") {
						srt = v.Sort
					} else if v.Agg && v.T != nil {
						srt = g.lay.Cells(v.T)[i].Sort
					}
					if isNum(t) {
						nv.S = append(nv.S, t) // numerals stay literal (weights of unrolled iterations)
						continue
					}
					nv.S = append(nv.S, g.def("gh_"+as.Name, srt, t))
				}
				g.lets[as.Name] = &nv
			}
		}
	}
}

// pointEnv: environment for ghost statements at an instruction: current heap, local names resolved
// to their latest binding before the instruction.
func (g *Gen) pointEnv(at ssa.Instruction) *Env {
	env := g.entryEnv()
	env.heap = g.heap
	env.nextobj = g.nextobj
	env.ghost = g.ghost
	env.resolve = func(name string) *Val { return g.resolveBefore(at, name) }
	g.dropAddressTakenParams(env)
	return env
}

// resolveBefore finds the value of source variable `name` just after instruction at.
func (g *Gen) resolveBefore(at ssa.Instruction, name string) *Val {
	if v := g.allocNamed(at.Block(), at, name); v != nil {
		return v
	}
	if name == "rangeindex" {
		// the hidden index of the innermost range loop containing the instruction (-1 before the first element;
		// the element being processed in the body has index rangeindex + 1)
		var best *loopInfo
		for _, li := range g.loops {
			if li.body[at.Block()] && (best == nil || len(li.body) < len(best.body)) {
				for _, in := range li.header.Instrs {
					if phi, ok := in.(*ssa.Phi); ok && phi.Comment == "rangeindex" {
						best = li
					}
				}
			}
		}
		if best != nil {
			for _, in := range best.header.Instrs {
				if phi, ok := in.(*ssa.Phi); ok && phi.Comment == "rangeindex" {
					if v, ok := g.vals[phi]; ok {
						return v
					}
				}
			}
		}
	}
	b := at.Block()
	var best ssa.Value
	bestAddr := false
	bestKey := -1
	for _, blk := range g.fn.Blocks {
		same := blk == b
		if !same && !blk.Dominates(b) {
			continue
		}
		for i, ins := range blk.Instrs {
			if same && ins == at {
				// refs emitted right after `at` for its own result belong to it: look a little ahead
				for j := i + 1; j < len(blk.Instrs); j++ {
					if ex, isEx := blk.Instrs[j].(*ssa.Extract); isEx && isStoreInstr(at) {
						// the remaining results of the tuple assignment `at` belongs to (x[0], borrow = f(..): the store
						// of x[0] precedes the extraction of borrow): pure projections of an already computed tuple
						if _, done := g.vals[ex]; !done {
							if t, known := g.vals[ex.Tuple]; known && t.Tuple != nil && ex.Index < len(t.Tuple) {
								g.vals[ex] = t.Tuple[ex.Index]
							}
						}
						continue
					}
					ref, ok := blk.Instrs[j].(*ssa.DebugRef)
					if !ok {
						break
					}
					if ref.Object() != nil && ref.Object().Name() == name {
						if _, isVar := ref.Object().(*types.Var); isVar {
							if _, known := g.vals[ref.X]; known || isConstLike(ref.X) {
								best, bestAddr, bestKey = ref.X, ref.IsAddr, 1<<30
							}
						}
					}
				}
				break
			}
			ref, ok := ins.(*ssa.DebugRef)
			if !ok || ref.Object() == nil || ref.Object().Name() != name {
				continue
			}
			if _, isVar := ref.Object().(*types.Var); !isVar {
				continue
			}
			if _, known := g.vals[ref.X]; !known && !isConstLike(ref.X) {
				continue
			}
			key := blk.Index*100000 + i
			if same {
				key += 1 << 28
			}
			if key > bestKey {
				best, bestAddr, bestKey = ref.X, ref.IsAddr, key
			}
		}
	}
	if best == nil {
		return nil
	}
	v := g.val(best)
	if bestAddr {
		elem := best.Type().Underlying().(*types.Pointer).Elem()
		return g.loadFrom(g.heap, elem, v.S[0], v.S[1])
	}
	return v
}

func isConstLike(v ssa.Value) bool {
	switch v.(type) {
	case *ssa.Const, *ssa.Global, *ssa.Function, *ssa.Parameter, *ssa.FreeVar:
		return true
	}
	return false
}

func isErrorType(t types.Type) bool {
	n, ok := t.(*types.Named)
	return ok && n.Obj().Pkg() == nil && n.Obj().Name() == "error"
}

// allocNamed: if source variable `name` lives in memory (an Alloc with that comment dominating the point,
// the latest one), its current value is read from the heap.
func (g *Gen) allocNamed(b *ssa.BasicBlock, at ssa.Instruction, name string) *Val {
	var best *ssa.Alloc
	bestKey := -1
	for _, blk := range g.fn.Blocks {
		same := blk == b
		if !same && !blk.Dominates(b) {
			continue
		}
		for i, ins := range blk.Instrs {
			if same && at != nil && ins == at {
				break
			}
			al, ok := ins.(*ssa.Alloc)
			if !ok || al.Comment != name {
				continue
			}
			if _, known := g.vals[al]; !known {
				continue
			}
			key := blk.Index*100000 + i
			if same {
				key += 1 << 28
			}
			if key > bestKey {
				best, bestKey = al, key
			}
		}
	}
	if best == nil {
		return nil
	}
	v := g.val(best)
	elem := best.Type().Underlying().(*types.Pointer).Elem()
	return g.loadFrom(g.heap, elem, v.S[0], v.S[1])
}

func firstNonPhi(b *ssa.BasicBlock) ssa.Instruction {
	for _, i := range b.Instrs {
		if _, ok := i.(*ssa.Phi); !ok {
			return i
		}
	}
	return nil
}

// atLoopBody runs "at loopbody K" ghost statements; names resolve as in the loop invariant of loop K.
func (g *Gen) atLoopBody(li *loopInfo, at ssa.Instruction) {
	for _, as := range g.ct.Ats {
		if as.PointKind != "loopbody" || as.Ordinal != li.ordinal {
			continue
		}
		g.markUsed(as)
		phis := map[string]*Val{}
		for _, ins := range li.header.Instrs {
			phi, ok := ins.(*ssa.Phi)
			if !ok {
				break
			}
			if phi.Comment != "" {
				phis[phi.Comment] = g.val(phi)
			}
		}
		env := g.loopEnv(li, phis)
		switch as.Kind {
		case "assert":
			env.goal = true
			t := g.specBool(env, as.C.E)
			o := g.obligeNamed(fmt.Sprintf("%s#%s", g.unit, as.C.Name), "assert", t, at.Pos(), "ghost assertion: "+as.C.Text, as.C.Props)
			g.applyUsing(o, as.C)
			if as.C.Label != "" {
				g.facts[as.C.Label] = fmt.Sprintf("(=> %s %s)", g.reach, t)
			}
		case "inst":
			g.instFact(env, as)
		case "set":
			if _, declared := g.ghost[as.Name]; !declared {
				g.bindFail("set of undeclared ghost variable " + as.Name)
				continue
			}
			if v := g.specVal(env, as.C.E); v != nil && len(v.S) == 1 {
				g.ghost[as.Name] = g.def("gh_"+as.Name, g.ghostSortOf(as.Name), v.S[0])
			}
		case "ghost":
			v := g.specVal(env, as.C.E)
			if v != nil {
				nv := *v
				nv.S = nil
				for i, t := range v.S {
					srt := "Int"
					if v.Sort == "Bool" || v.Sort == "Fp" || v.Sort == "Fr" || v.Sort == "Bytes" || v.Sort == "G" || strings.HasPrefix(v.Sort, "(Array") {
						srt = v.Sort
					} else if v.Agg && v.T != nil {
						srt = g.lay.Cells(v.T)[i].Sort
					}
					if isNum(t) {
						nv.S = append(nv.S, t) // numerals stay literal (weights of unrolled iterations)
						continue
					}
					nv.S = append(nv.S, g.def("gh_"+as.Name, srt, t))
				}
				g.lets[as.Name] = &nv
			}
		}
	}
}

// instFact adds the instance of a precondition schema: arguments are evaluated at the current point, the body in
// the entry state (where the schema holds for all parameter values).
func (g *Gen) instFact(env *Env, as *AtStmt) {
	var fd *FactDef
	for _, f := range g.ct.Facts {
		if f.Name == as.Name {
			fd = f
		}
	}
	if fd == nil {
		g.bindFail("inst of unknown fact " + as.Name)
		return
	}
	args := as.C.E.Args[1:]
	if len(args) != len(fd.Vars) {
		g.bindFail("inst " + as.Name + ": wrong number of arguments")
		return
	}
	entry := g.entryEnv()
	for i, bv := range fd.Vars {
		v := g.specVal(env, args[i])
		if v == nil {
			return
		}
		// name the argument so the instance is small
		if isNum(v.S[0]) {
			entry.vars[bv.Name] = scalar(sortOfSpecName(bv.Sort), v.S[0], nil)
			continue
		}
		entry.vars[bv.Name] = scalar(sortOfSpecName(bv.Sort), g.def("inst_"+bv.Name, sortOfSpecName(bv.Sort), v.S[0]), nil)
	}
	g.assume(g.specBool(entry, fd.C.E))
}

// stablePath: a modifies target of a callee reached through a path from its parameters (e.g. *(t.buff),
// hcontent(t.state)) whose arguments are defined outside the loop. The path is evaluated once, in the state at
// loop entry, and the loop carries the automatic invariant that the path still has that value (assumed at the
// head, proved on every back edge), so the region named at entry is the region written in every iteration.
type stablePath struct {
	names []string
	args  []*Val
	pkg   *ssa.Package
	inner *Expr
	pre   *Val
	text  string
}

func (g *Gen) calleeEnv(names []string, args []*Val, pkg *ssa.Package) *Env {
	env := &Env{g: g, vars: map[string]*Val{}, heap: copyMap(g.heap), old: copyMap(g.heap), nextobj: g.nextobj, oldNextobj: g.nextobj,
		ghost: copyMap(g.ghost), oldGhost: copyMap(g.ghost), pkg: pkg}
	for i, n := range names {
		if i < len(args) {
			env.vars[n] = args[i]
		}
	}
	return env
}

func (g *Gen) pathModifies(li *loopInfo, ct *Contract, cc *ssa.CallCommon, names []string, m *Clause, addRegion func(region)) bool {
	var inner *Expr
	switch {
	case m.E.Op == "deref" && m.E.Args[0].Op == "sel":
		inner = m.E.Args[0]
	case m.E.Op == "call" && m.E.Args[0].Op == "id" && m.E.Args[0].Tok == "hcontent" && len(m.E.Args) == 2 && m.E.Args[1].Op == "sel":
		inner = m.E.Args[1]
	default:
		return false
	}
	// the path may only consist of field selections from one parameter
	for x := inner; ; x = x.Args[0] {
		if x.Op == "id" {
			break
		}
		if x.Op != "sel" {
			return false
		}
	}
	base := baseIdent(inner)
	var pnames []string
	var args []*Val
	for i, n := range names {
		if n != base {
			continue
		}
		if i >= len(cc.Args) || !g.definedOutside(li, cc.Args[i]) {
			return false
		}
		pnames = append(pnames, n)
		args = append(args, g.val(cc.Args[i]))
	}
	if len(args) != 1 {
		return false
	}
	names = pnames
	pkg := g.eng.pkgOfKey(ct.Key)
	env := g.calleeEnv(names, args, pkg)
	pre := g.specVal(env, inner)
	if pre == nil {
		return false
	}
	regs := g.footprint(env, m.E)
	if len(regs) == 0 {
		return false
	}
	for _, r := range regs {
		addRegion(r)
	}
	li.stable = append(li.stable, stablePath{names, args, pkg, inner, pre, m.Text})
	return true
}

// stablePaths relates the current value of every stable path of the loop to its value at loop entry:
// assumed at the loop head, proved on back edges.
func (g *Gen) stablePaths(li *loopInfo, check bool, pos token.Pos) {
	for _, sp := range li.stable {
		env := g.calleeEnv(sp.names, sp.args, sp.pkg)
		v := g.specVal(env, sp.inner)
		if v == nil || len(v.S) != len(sp.pre.S) {
			continue
		}
		var eqs []string
		for i := range v.S {
			eqs = append(eqs, fmt.Sprintf("(= %s %s)", v.S[i], sp.pre.S[i]))
		}
		if check {
			g.oblige("inv.stable", and(eqs...), pos, "the loop leaves the path of the callee's modifies target unchanged: "+sp.text, nil)
		} else {
			g.assumeRaw(and(eqs...))
		}
	}
}

func (g *Gen) ensurePointCount() {
	if g.pointCount != nil {
		return
	}
	g.pointCount = map[ssa.Instruction]int{}
	cnt := map[string]int{}
	// ordinals follow source order: blocks by index, instructions in order
	for _, b := range g.fn.Blocks {
		for _, i := range b.Instrs {
			switch y := i.(type) {
			case *ssa.Store:
				g.pointCount[i] = cnt["store:"]
				cnt["store:"]++
			case *ssa.Return:
				g.pointCount[i] = cnt["return:"]
				cnt["return:"]++
			case *ssa.Go:
				g.pointCount[i] = cnt["go:"]
				cnt["go:"]++
			case *ssa.Call:
				if c := y.Common().StaticCallee(); c != nil {
					g.pointCount[i] = cnt["call:"+c.Name()]
					cnt["call:"+c.Name()]++
				} else if b, isB := y.Common().Value.(*ssa.Builtin); isB {
					g.pointCount[i] = cnt["call:"+b.Name()]
					cnt["call:"+b.Name()]++
				}
			}
			if os.Getenv("GOVC_POINTS") != "" { // contract-writing aid: list the program points of the unit
				if n, ok := g.pointCount[i]; ok {
					fmt.Fprintf(os.Stderr, "point %s block %d ordinal %d: %s  (%s)\n", g.unit, b.Index, n, i.String(), g.eng.fset.Position(i.Pos()))
				}
			}
		}
	}
}

// passDirective: the `pass` statement for schema fact of the call being processed, if any.
func (g *Gen) passDirective(fact string) *AtStmt {
	if g.curCall == nil {
		return nil
	}
	callee := g.curCall.Common().StaticCallee()
	if callee == nil {
		return nil
	}
	g.ensurePointCount()
	ord := g.pointCount[g.curCall]
	for _, as := range g.ct.Ats {
		if as.Kind == "pass" && as.PointKind == "call" && as.Callee == callee.Name() && (as.Ordinal == ord || as.Ordinal == -1) && as.Name == fact {
			g.markUsed(as)
			return as
		}
	}
	return nil
}

func isStoreInstr(i ssa.Instruction) bool { _, ok := i.(*ssa.Store); return ok }
