package main

// Memory layout: every Go type is flattened into a sequence of typed cells.
// Heaps are SMT arrays  H_<sort> : obj -> (cell offset -> value).
// Opaque named types (big.Int, field elements in the field view, ...) are a single cell
// holding their abstract value.

import (
	"fmt"
	"go/types"
	"math/big"
)

type Cell struct {
	Sort string     // SMT sort of the cell: Int, Fp, Fr, Bytes
	T    types.Type // Go leaf type (for ranges); nil for opaque cells
	Role string     // "", "obj", "off", "len", "cap" for pointer/slice components
}

const (
	pathFr    = "github.com/crate-crypto/go-ipa/bandersnatch/fr.Element"
	pathFp    = "github.com/consensys/gnark-crypto/ecc/bls12-381/fr.Element"
	pathBig   = "math/big.Int"
	pathWG    = "sync.WaitGroup"
	pathPool  = "sync.Pool"
	pathBuf   = "bytes.Buffer"
	pathMutex = "sync.Mutex"
)

type View struct {
	FrLimbs bool // fr.Element as 4 uint64 cells
	FpLimbs bool
	Field   bool // field sorts available
	Group   bool // group-level contracts (key@group) preferred
	Bytes   bool
}

func typeKey(t types.Type) string {
	if n, ok := t.(*types.Named); ok {
		if n.Obj().Pkg() != nil {
			return n.Obj().Pkg().Path() + "." + n.Obj().Name()
		}
		return n.Obj().Name()
	}
	if a, ok := t.(*types.Alias); ok {
		return typeKey(types.Unalias(a))
	}
	return ""
}

// opaqueSort returns the sort of the single abstract cell of an opaque type, or "".
func (v *View) opaqueSort(t types.Type) string {
	switch typeKey(t) {
	case pathFr:
		if !v.FrLimbs {
			return "Fr"
		}
	case pathFp:
		if !v.FpLimbs {
			return "Fp"
		}
	case pathBig, pathWG, pathPool, pathMutex, "sync.Once", "context.Context":
		return "Int"
	case pathBuf:
		if v.Bytes {
			return "Bytes"
		}
		return "Int"
	}
	return ""
}

type Layout struct {
	view  *View
	cache map[types.Type][]Cell
}

func NewLayout(v *View) *Layout { return &Layout{view: v, cache: map[types.Type][]Cell{}} }

const maxCells = 4096

func (l *Layout) Cells(t types.Type) []Cell {
	if c, ok := l.cache[t]; ok {
		return c
	}
	c := l.cells(t)
	l.cache[t] = c
	return c
}

func (l *Layout) cells(t types.Type) []Cell {
	if s := l.view.opaqueSort(t); s != "" {
		return []Cell{{Sort: s}}
	}
	switch u := t.Underlying().(type) {
	case *types.Basic:
		if u.Info()&types.IsFloat != 0 || u.Info()&types.IsComplex != 0 {
			return []Cell{{Sort: "Int", T: nil, Role: "float"}}
		}
		return []Cell{{Sort: "Int", T: u}}
	case *types.Pointer:
		return []Cell{{Sort: "Int", Role: "obj"}, {Sort: "Int", Role: "off"}}
	case *types.Slice:
		return []Cell{{Sort: "Int", Role: "obj"}, {Sort: "Int", Role: "off"}, {Sort: "Int", Role: "len"}, {Sort: "Int", Role: "cap"}}
	case *types.Array:
		ec := l.Cells(u.Elem())
		n := int(u.Len())
		if n*len(ec) > maxCells {
			panic(fmt.Sprintf("type %s too large for the cell model", t))
		}
		out := make([]Cell, 0, n*len(ec))
		for i := 0; i < n; i++ {
			out = append(out, ec...)
		}
		return out
	case *types.Struct:
		var out []Cell
		for i := 0; i < u.NumFields(); i++ {
			out = append(out, l.Cells(u.Field(i).Type())...)
		}
		if len(out) == 0 {
			return []Cell{}
		}
		return out
	case *types.Interface, *types.Signature, *types.Map, *types.Chan:
		return []Cell{{Sort: "Int", Role: "ref"}}
	case *types.Tuple:
		var out []Cell
		for i := 0; i < u.Len(); i++ {
			out = append(out, l.Cells(u.At(i).Type())...)
		}
		return out
	}
	panic(fmt.Sprintf("layout: unsupported type %s (%T)", t, t.Underlying()))
}

func (l *Layout) Size(t types.Type) int { return len(l.Cells(t)) }

func (l *Layout) FieldOff(st *types.Struct, idx int) int {
	off := 0
	for i := 0; i < idx; i++ {
		off += l.Size(st.Field(i).Type())
	}
	return off
}

func intInfo(t types.Type) (bits int, signed bool, ok bool) {
	b, isB := t.Underlying().(*types.Basic)
	if !isB {
		return 0, false, false
	}
	switch b.Kind() {
	case types.Int, types.Int64:
		return 64, true, true
	case types.Int32:
		return 32, true, true
	case types.Int16:
		return 16, true, true
	case types.Int8:
		return 8, true, true
	case types.Uint, types.Uint64, types.Uintptr:
		return 64, false, true
	case types.Uint32:
		return 32, false, true
	case types.Uint16:
		return 16, false, true
	case types.Uint8:
		return 8, false, true
	case types.UntypedInt, types.UntypedRune:
		return 0, true, true // mathematical
	}
	return 0, false, false
}

func pow2s(k int) string { return new(big.Int).Lsh(big.NewInt(1), uint(k)).String() }

func smtInt(v *big.Int) string {
	if v.Sign() < 0 {
		return "(- " + new(big.Int).Neg(v).String() + ")"
	}
	return v.String()
}

// rangePred returns the SMT predicate "term is a value of Go integer type t" (or "true").
func rangePred(term string, t types.Type) string {
	if t == nil {
		return "true"
	}
	if b, ok := t.Underlying().(*types.Basic); ok && b.Info()&types.IsBoolean != 0 {
		return fmt.Sprintf("(or (= %s 0) (= %s 1))", term, term)
	}
	bits, signed, ok := intInfo(t)
	if !ok || bits == 0 {
		return "true"
	}
	if signed {
		return fmt.Sprintf("(and (<= (- %s) %s) (< %s %s))", pow2s(bits-1), term, term, pow2s(bits-1))
	}
	return fmt.Sprintf("(and (<= 0 %s) (< %s %s))", term, term, pow2s(bits))
}
