package main

import (
	"encoding/json"
	"flag"
	"fmt"
	"os"
	"path/filepath"
	"runtime/debug"
	"sort"
	"strconv"
	"strings"
	"sync"
	"sync/atomic"
	"time"

	"golang.org/x/tools/go/ssa"
)

type job struct {
	g *Gen
	o *Obligation
}

func main() {
	if len(os.Args) < 2 {
		fmt.Println("usage: govc check|units|dump ...")
		os.Exit(2)
	}
	cmd := os.Args[1]
	fs := flag.NewFlagSet(cmd, flag.ExitOnError)
	prop := fs.String("prop", "", "property id (Cxx); empty = all units")
	tier := fs.String("tier", "quick", "quick|thorough")
	unitFilter := fs.String("unit", "", "only units whose name contains this")
	repo := fs.String("repo", "/repo", "repository under verification")
	verif := fs.String("verif", "/verif", "verification directory")
	verbose := fs.Bool("v", false, "verbose")
	oblFilter := fs.String("obl", "", "only obligations whose name contains this")
	keep := fs.Bool("keep", false, "keep SMT files of proved obligations")
	noEvidence := fs.Bool("noevidence", false, "do not write evidence")
	timeoutFlag := fs.Int("timeout", 0, "per-obligation timeout in seconds (0 = tier default)")
	writeHintsFlag := fs.Bool("writehints", false, "record solver/seed hints for obligations that needed a non-default attempt (hints/<prop>.json)")
	fs.Parse(os.Args[2:])

	eng := &Engine{repoDir: *repo, verifDir: *verif}
	start := time.Now()
	if err := eng.Load(); err != nil {
		fmt.Println("govc: load failed:", err)
		if cmd == "check" && *prop != "" {
			// a tree that does not compile is outside the task; report as error, not as violation
			os.Exit(3)
		}
		os.Exit(3)
	}
	loadSecs := time.Since(start).Seconds()
	for _, e := range eng.cs.Errs {
		fmt.Println("contract error:", e)
	}

	switch cmd {
	case "units":
		for _, k := range eng.cs.Order {
			ct := eng.cs.ByKey[k]
			st := "checked"
			if ct.Assumed != "" {
				st = "assumed"
			}
			fmt.Printf("%-80s %-8s props=%v\n", shortUnit(k), st, ct.Props)
		}
		return
	case "sweep":
		if *unitFilter != "" {
			eng.sweepDebug(*unitFilter)
			return
		}
		for _, o := range eng.sweepObligations("C13") {
			if o.Status != "proved" {
				fmt.Printf("%-8s %-70s %s  [%s]\n", o.Status, o.Name, o.Output, o.Pos)
			}
		}
		return
	case "check", "dump":
	default:
		fmt.Println("unknown command", cmd)
		os.Exit(2)
	}

	timeout := 25
	if *tier == "thorough" {
		timeout = 90
	}
	if *timeoutFlag > 0 {
		timeout = *timeoutFlag
	}

	// select units
	var units []*Gen
	var bindErrs []string
	for _, k := range eng.cs.Order {
		ct := eng.cs.ByKey[k]
		if ct.Assumed != "" {
			continue
		}
		if *prop != "" && !contractHasProp(ct, *prop) {
			continue
		}
		if *unitFilter != "" && !strings.Contains(k, *unitFilter) {
			continue
		}
		fn := eng.fnByKey[k]
		if fn == nil {
			if at := strings.Index(k, "@"); at > 0 {
				fn = eng.fnByKey[k[:at]] // key@view: the same function verified under another view
			}
		}
		if fn == nil {
			bindErrs = append(bindErrs, fmt.Sprintf("%s#bind: contract target not found in the repository", shortUnit(k)))
			continue
		}
		if len(ct.Split) > 0 {
			for i := range ct.Split {
				g := eng.NewGen(fn, ct)
				g.splitCase = i
				g.unit = fmt.Sprintf("%s#case%d", g.unit, i)
				units = append(units, g)
			}
			continue
		}
		g := eng.NewGen(fn, ct)
		g.splitCase = -1
		units = append(units, g)
	}
	if len(eng.cs.Errs) > 0 {
		for _, e := range eng.cs.Errs {
			bindErrs = append(bindErrs, "contract-syntax: "+e)
		}
	}

	// generate
	genStart := time.Now()
	var wg sync.WaitGroup
	sem := make(chan struct{}, 16)
	for _, g := range units {
		g := g
		wg.Add(1)
		sem <- struct{}{}
		go func() {
			defer wg.Done()
			defer func() { <-sem }()
			defer func() {
				if r := recover(); r != nil {
					g.errs = append(g.errs, fmt.Sprintf("generator panic: %v\n%s", r, debug.Stack()))
				}
			}()
			g.run()
		}()
	}
	wg.Wait()

	// Dependency closure: a property's check also verifies every proved (non-assumed) /repo function whose contract one of
	// its units applies at a call site, transitively - otherwise a change inside such a callee would leave this property's
	// check green although the property is broken (the callee's own property would notice, this one would not).
	if *prop != "" && *unitFilter == "" && os.Getenv("GOVC_NOCLOSURE") == "" {
		inProp := map[string]bool{}
		for _, g := range units {
			inProp[g.ct.Key] = true
		}
		frontier := units
		for round := 0; round < 12 && len(frontier) > 0; round++ {
			var added []*Gen
			var keys []string
			for _, g := range frontier {
				for k := range g.calledKeys {
					keys = append(keys, k)
				}
			}
			sort.Strings(keys)
			for _, k := range keys {
				if inProp[k] {
					continue
				}
				inProp[k] = true
				ct := eng.cs.ByKey[k]
				if ct == nil || ct.Assumed != "" {
					continue
				}
				fn := eng.fnByKey[k]
				if fn == nil {
					if at := strings.Index(k, "@"); at > 0 {
						fn = eng.fnByKey[k[:at]]
					}
				}
				if fn == nil {
					continue
				}
				if len(ct.Split) > 0 {
					for i := range ct.Split {
						g := eng.NewGen(fn, ct)
						g.splitCase = i
						g.inClosure = true
						g.unit = fmt.Sprintf("%s#case%d", g.unit, i)
						added = append(added, g)
					}
					continue
				}
				g := eng.NewGen(fn, ct)
				g.splitCase = -1
				g.inClosure = true
				added = append(added, g)
			}
			var wg2 sync.WaitGroup
			for _, g := range added {
				g := g
				wg2.Add(1)
				sem <- struct{}{}
				go func() {
					defer wg2.Done()
					defer func() { <-sem }()
					defer func() {
						if r := recover(); r != nil {
							g.errs = append(g.errs, fmt.Sprintf("generator panic: %v\n%s", r, debug.Stack()))
						}
					}()
					g.run()
				}()
			}
			wg2.Wait()
			units = append(units, added...)
			frontier = added
		}
	}
	genSecs := time.Since(genStart).Seconds()

	// membership audit (GOVC_AUDIT=1): a proved (non-assumed) /repo contract that a unit of this property applies at a call
	// site should itself be checked under the property - otherwise a change inside that callee is invisible to this check
	if os.Getenv("GOVC_AUDIT") != "" && *prop != "" && *unitFilter == "" {
		inProp := map[string]bool{}
		for _, g := range units {
			inProp[g.ct.Key] = true
		}
		seen := map[string]bool{}
		for _, g := range units {
			for k := range g.calledKeys {
				base := k
				if at := strings.Index(base, "@"); at > 0 {
					base = base[:at]
				}
				if !inProp[k] && !inProp[base] && !seen[k] {
					seen[k] = true
					fmt.Printf("AUDIT property=%s: contract of %s is used (by %s) but the function is not checked under this property\n", *prop, shortUnit(k), g.unit)
				}
			}
		}
	}

	if cmd == "dump" {
		for _, g := range units {
			for _, o := range g.obls {
				if *oblFilter == "" || strings.Contains(o.Name, *oblFilter) {
					fmt.Println(g.smtFor(o))
				}
			}
			for _, e := range g.errs {
				fmt.Println("; ERROR:", e)
			}
		}
		return
	}

	workDir := filepath.Join(*verif, "work", "smt", orDefault(*prop, "all"))
	os.RemoveAll(workDir)
	os.MkdirAll(workDir, 0o755)

	// solve
	st := &solverStats{bySolver: map[string]int{}, secs: map[string]float64{}}
	var jobs []job
	for _, g := range units {
		for _, o := range g.obls {
			if *oblFilter != "" && !strings.Contains(o.Name, *oblFilter) {
				continue
			}
			if *prop != "" && !g.inClosure && !obligationHasProp(g.ct, o, *prop) {
				continue
			}
			jobs = append(jobs, job{g, o})
		}
	}
	writeHints = *writeHintsFlag
	if *prop != "" {
		if b, err := os.ReadFile(filepath.Join(*verif, "hints", *prop+".json")); err == nil {
			json.Unmarshal(b, &hints)
		}
	}
	var undischarged int32
	const maxUndischarged = 24
	solveStart := time.Now()
	jch := make(chan job)
	var swg sync.WaitGroup
	for w := 0; w < 14; w++ {
		swg.Add(1)
		go func() {
			defer swg.Done()
			for j := range jch {
				if atomic.LoadInt32(&undischarged) >= maxUndischarged && !writeHints {
					// the run is already a violation many times over: the remaining obligations are not attempted
					// (each undischarged obligation costs the full race of every solver and seed)
					j.o.Status = "skipped"
					continue
				}
				discharge(j.g, j.o, workDir, timeout, st)
				if j.o.Status != "proved" && !j.o.MustSat {
					atomic.AddInt32(&undischarged, 1)
				}
				if j.o.Status == "proved" && !*keep {
					os.Remove(j.o.SMTFile)
				}
			}
		}()
	}
	for _, j := range jobs {
		jch <- j
	}
	close(jch)
	swg.Wait()
	solveSecs := time.Since(solveStart).Seconds()
	if writeHints && *prop != "" && *unitFilter == "" && *oblFilter == "" {
		// keep earlier hints of obligations that were proved by their hint again; replace the rest
		merged := map[string]proofHint{}
		for _, j := range jobs {
			if j.o.Status != "proved" {
				continue
			}
			if nh, ok := newHints[j.o.Name]; ok {
				merged[j.o.Name] = nh
			} else if oh, ok := hints[j.o.Name]; ok && strings.HasPrefix(j.o.Solver, oh.Solver) && j.o.Time < 4 {
				merged[j.o.Name] = oh
			}
		}
		os.MkdirAll(filepath.Join(*verif, "hints"), 0o755)
		b, _ := json.MarshalIndent(merged, "", " ")
		os.WriteFile(filepath.Join(*verif, "hints", *prop+".json"), b, 0o644)
		fmt.Printf("govc: wrote %d hints to hints/%s.json\n", len(merged), *prop)
	}

	// report
	var allObls []*Obligation
	for _, j := range jobs {
		allObls = append(allObls, j.o)
	}
	if (*prop == "C13" || *prop == "C12") && *unitFilter == "" && *oblFilter == "" {
		sw := eng.sweepObligations(*prop)
		for _, o := range sw {
			if o.Status == "proved" {
				st.bySolver["syntactic frame check"]++
			}
		}
		allObls = append(allObls, sw...)
	}
	if *prop != "" && *unitFilter == "" && *oblFilter == "" {
		allObls = append(allObls, runLemmas(*verif, *prop, timeout, st)...)
	}
	rep := buildReport(eng, *prop, *tier, units, allObls, bindErrs, st, *verif)
	rep.LoadS, rep.GenS, rep.SolveS = loadSecs, genSecs, solveSecs
	rep.WallS = time.Since(start).Seconds()
	if *verbose {
		for _, o := range allObls {
			if o.Kind == "sweep" && o.Status == "proved" {
				continue
			}
			fmt.Printf("%-9s %-70s %6.2fs %s %s\n", o.Status, o.Name, o.Time, o.Solver, o.Output)
		}
	}
	code := rep.finish(*noEvidence || *prop == "")
	os.Exit(code)
}

func orDefault(s, d string) string {
	if s == "" {
		return d
	}
	return s
}

func contractHasProp(ct *Contract, p string) bool {
	for _, x := range ct.Props {
		if x == p {
			return true
		}
	}
	all := [][]*Clause{ct.Requires, ct.Ensures, ct.Modifies}
	for _, l := range ct.Loops {
		all = append(all, l.Inv)
	}
	for _, cl := range all {
		for _, c := range cl {
			for _, x := range c.Props {
				if x == p {
					return true
				}
			}
		}
	}
	// every unit with a frame contributes to C13
	if p == "C13" && !ct.ModAny && ct.Options["noframe"] == "" && len(ct.Props) > 0 {
		return true
	}
	return false
}

func obligationHasProp(ct *Contract, o *Obligation, p string) bool {
	for _, x := range ct.Props {
		if x == p {
			return true
		}
	}
	for _, x := range o.Props {
		if x == p {
			return true
		}
	}
	return false
}

// ---------- report ----------

type Report struct {
	eng      *Engine
	prop     string
	tier     string
	units    []*Gen
	obls     []*Obligation
	bindErrs []string
	st       *solverStats
	verif    string
	LoadS    float64
	GenS     float64
	SolveS   float64
	WallS    float64
}

func buildReport(eng *Engine, prop, tier string, units []*Gen, obls []*Obligation, bindErrs []string, st *solverStats, verif string) *Report {
	return &Report{eng: eng, prop: prop, tier: tier, units: units, obls: obls, bindErrs: bindErrs, st: st, verif: verif}
}

type knownFinding struct {
	prop, obligation, text string
}

func loadKnownFindings(path string) []knownFinding {
	b, err := os.ReadFile(path)
	if err != nil {
		return nil
	}
	var out []knownFinding
	for _, line := range strings.Split(string(b), "\n") {
		line = strings.TrimSpace(line)
		if line == "" || strings.HasPrefix(line, "#") || strings.HasPrefix(line, "fixed:") {
			continue
		}
		kf := knownFinding{text: line}
		for _, f := range strings.Fields(line) {
			if strings.HasPrefix(f, "property=") {
				kf.prop = strings.TrimPrefix(f, "property=")
			}
			if strings.HasPrefix(f, "obligation=") {
				kf.obligation = strings.TrimPrefix(f, "obligation=")
			}
		}
		out = append(out, kf)
	}
	return out
}

func (r *Report) finish(noEvidence bool) int {
	known := loadKnownFindings(filepath.Join(r.verif, "known_findings.txt"))
	nObl, nProved, nCover, nCoverOK := 0, 0, 0, 0
	nSkipped := 0
	var failed []*Obligation
	var samples []interface{}
	kinds := map[string]int{}
	for _, o := range r.obls {
		if o.MustSat {
			nCover++
			if o.Status == "proved" {
				nCoverOK++
			} else if o.Status == "failed" {
				// precondition unsatisfiable: vacuous contract
				failed = append(failed, o)
			}
			continue
		}
		if o.Status == "skipped" {
			nSkipped++
			continue
		}
		nObl++
		kinds[o.Kind]++
		if o.Status == "proved" {
			nProved++
			if len(samples) < 6 && (o.Kind == "post" || o.Kind == "inv.keep" || o.Kind == "frame") {
				samples = append(samples, map[string]interface{}{"obligation": o.Name, "what": o.Desc, "at": o.Pos, "solver": o.Solver, "secs": round3(o.Time)})
			}
		} else {
			failed = append(failed, o)
		}
	}
	if len(samples) == 0 {
		for _, o := range r.obls {
			if o.Status == "proved" && len(samples) < 4 {
				samples = append(samples, map[string]interface{}{"obligation": o.Name, "what": o.Desc, "at": o.Pos, "solver": o.Solver})
			}
		}
	}
	// engine errors per unit
	var unitErrs []string
	funcs := []string{}
	assumed := map[string]bool{}
	havoc := map[string]bool{}
	var notes []string
	for _, g := range r.units {
		funcs = append(funcs, g.unit)
		for _, e := range g.errs {
			unitErrs = append(unitErrs, g.unit+"#bind: "+e)
		}
		for k := range g.assumedUsed {
			assumed[k] = true
		}
		for k := range g.havocCallees {
			havoc[g.unit+" calls "+k] = true
		}
		for _, n := range g.notes {
			notes = append(notes, g.unit+": "+n)
		}
	}
	unitErrs = append(unitErrs, r.bindErrs...)

	violations := 0
	knownHit := 0
	replayDir := filepath.Join(r.verif, "replay", orDefault(r.prop, "all"))
	if len(failed) > 0 || len(unitErrs) > 0 {
		os.MkdirAll(replayDir, 0o755)
	}
	isKnown := func(name string) *knownFinding {
		for i := range known {
			if known[i].obligation == name && (known[i].prop == r.prop || r.prop == "") {
				return &known[i]
			}
		}
		return nil
	}
	for _, o := range failed {
		if kf := isKnown(o.Name); kf != nil {
			fmt.Printf("KNOWN-FINDING: property=%s %s\n", orDefault(r.prop, kf.prop), kf.text)
			knownHit++
			continue
		}
		violations++
		path := filepath.Join(replayDir, sanitize(strings.ReplaceAll(o.Name, "#", "__"))+".json")
		rp := replayObligation(r, o)
		rec := map[string]interface{}{
			"property": r.prop, "obligation": o.Name, "kind": o.Kind, "description": o.Desc, "source": o.Pos,
			"status": o.Status, "solver": o.Solver, "solver_output": o.Output, "model": o.Model, "smt_file": o.SMTFile,
			"replay": rp,
		}
		b, _ := json.MarshalIndent(rec, "", " ")
		os.WriteFile(path, b, 0o644)
		suffix := ""
		if rp == nil || rp["failing_input_found"] != true {
			suffix = " no-failing-input-found"
		}
		fmt.Printf("FAILED obligation %s (%s) at %s: %s\n", o.Name, o.Status, o.Pos, o.Desc)
		fmt.Printf("VIOLATION property=%s replay=%s%s\n", orDefault(r.prop, "all"), path, suffix)
	}
	for i, e := range unitErrs {
		violations++
		path := filepath.Join(replayDir, fmt.Sprintf("bind_%d.json", i))
		b, _ := json.MarshalIndent(map[string]interface{}{"property": r.prop, "obligation": strings.SplitN(e, ":", 2)[0], "error": e,
			"explanation": "the contract could not be bound to / generated from the current source; the obligation is undecided"}, "", " ")
		os.WriteFile(path, b, 0o644)
		fmt.Printf("FAILED %s\n", e)
		fmt.Printf("VIOLATION property=%s replay=%s no-failing-input-found\n", orDefault(r.prop, "all"), path)
	}
	var bounded []boundedResult
	if r.tier == "thorough" && r.prop != "" {
		bounded = runBounded(r.eng.repoDir, r.verif, r.prop)
		for _, br := range bounded {
			fmt.Printf("bounded   %-60s %s cases=%d %.1fs (%s)\n", br.Name, br.Status, br.Cases, br.Secs, br.Label)
			if br.Status == "passed" {
				continue
			}
			violations++
			os.MkdirAll(replayDir, 0o755)
			path := filepath.Join(replayDir, "bounded_"+sanitize(br.Name)+".json")
			b, _ := json.MarshalIndent(map[string]interface{}{"property": r.prop, "obligation": "bounded:" + br.Name, "kind": "bounded stand-in",
				"description": "bounded stand-in for an assumed contract failed on the real code: " + br.StandinFor, "failing_input": br.FailingInput,
				"output": br.Output, "status": br.Status, "rerun": "./check.sh " + r.prop + " thorough"}, "", " ")
			os.WriteFile(path, b, 0o644)
			if br.Status == "failed" {
				fmt.Printf("FAILED bounded stand-in %s: %s\n", br.Name, br.FailingInput)
				fmt.Printf("VIOLATION property=%s replay=%s\n", r.prop, path)
			} else {
				fmt.Printf("FAILED bounded stand-in %s could not be run\n", br.Name)
				fmt.Printf("VIOLATION property=%s replay=%s no-failing-input-found\n", r.prop, path)
			}
		}
	}
	if nObl == 0 && r.prop != "" {
		violations++
		fmt.Printf("FAILED no obligations were generated for %s (vacuous check)\n", r.prop)
		fmt.Printf("VIOLATION property=%s replay=%s no-failing-input-found\n", r.prop, filepath.Join(replayDir, "vacuous.json"))
		os.MkdirAll(replayDir, 0o755)
		os.WriteFile(filepath.Join(replayDir, "vacuous.json"), []byte(`{"error":"zero obligations generated"}`), 0o644)
	}

	if nSkipped > 0 {
		fmt.Printf("govc: %d further obligations were not attempted after %d undischarged ones\n", nSkipped, violations)
	}
	fmt.Printf("govc: property=%s tier=%s units=%d obligations=%d discharged=%d covers=%d/%d failed=%d known=%d load=%.1fs gen=%.1fs solve=%.1fs\n",
		orDefault(r.prop, "all"), r.tier, len(r.units), nObl, nProved, nCoverOK, nCover, violations, knownHit, r.LoadS, r.GenS, r.SolveS)

	if !noEvidence {
		sort.Strings(funcs)
		var trusted []string
		trusted = append(trusted, "A1 govc VC generator (go/ssa -> SMT translation, heap model, integer semantics) and go/ssa v0.29.0",
			"A2 SMT solvers: z3 5.1.0 (z3-new), z3 4.8.12, cvc5 1.0.3")
		var assumptions []string
		for k := range assumed {
			assumptions = append(assumptions, "assumed contract: "+k)
		}
		for k := range havoc {
			assumptions = append(assumptions, "callee without contract (havoc-abstracted): "+k)
		}
		sort.Strings(assumptions)
		assumptions = append(assumptions, propAssumptions[r.prop]...)
		assumptions = append(assumptions, notes...)
		seed, _ := strconv.Atoi(os.Getenv("VERIF_SEED"))
		solverSecs := map[string]float64{}
		for k, v := range r.st.secs {
			solverSecs[k] = round3(v)
		}
		ev := map[string]interface{}{
			"property_id": r.prop, "tier": r.tier, "seed": seed, "level": "proof",
			"coverage": map[string]interface{}{
				"obligations": nObl, "discharged": nProved,
				"checker_cmd":              fmt.Sprintf("/verif/bin/govc check -prop %s -tier %s", r.prop, r.tier),
				"trusted_base":             trusted,
				"functions_under_contract": funcs,
				"obligation_kinds":         kinds,
				"discharged_by_backend":    r.st.bySolver,
				"solver_seconds":           solverSecs,
				"vacuity_covers":           map[string]int{"total": nCover, "satisfiable": nCoverOK},
				"samples":                  samples,
				"known_findings_hit":       knownHit,
				"bounded_standins":         bounded,
				"explanation":              "every obligation is generated from the current /repo source (go/ssa) and the contracts in zz_contracts_verif.go; discharged = solver answered unsat for the negated obligation",
			},
			"assumptions": assumptions,
			"wall_s":      round3(r.WallS),
			"violations":  violations,
		}
		os.MkdirAll(filepath.Join(r.verif, "evidence"), 0o755)
		b, _ := json.MarshalIndent(ev, "", " ")
		os.WriteFile(filepath.Join(r.verif, "evidence", r.prop+".json"), b, 0o644)
	}
	if violations > 0 {
		return 1
	}
	return 0
}

func round3(x float64) float64 { return float64(int(x*1000+0.5)) / 1000 }

var propAssumptions = map[string][]string{}

var _ = ssa.BuilderMode(0)
