package main

// Spec preludes: /verif/spec/<name>.smt2, raw SMT-LIB. Signatures of declared/defined functions are
// parsed so that contract expressions can call them. A file may start with lines
//   ; requires: other1 other2
// naming preludes that must be included before it.

import (
	"os"
	"path/filepath"
	"strings"
)

type fnSig struct {
	args []string
	ret  string
	file string
}

type Prelude struct {
	files map[string]string   // name -> text
	deps  map[string][]string // name -> required preludes
	sigs  map[string]fnSig
	order []string
}

type sexp struct {
	atom string
	list []*sexp
}

func (s *sexp) String() string {
	if s.list == nil {
		return s.atom
	}
	parts := make([]string, len(s.list))
	for i, x := range s.list {
		parts[i] = x.String()
	}
	return "(" + strings.Join(parts, " ") + ")"
}

func parseSexps(src string) []*sexp {
	var stack [][]*sexp
	cur := []*sexp{}
	i := 0
	for i < len(src) {
		c := src[i]
		switch {
		case c == ';':
			for i < len(src) && src[i] != '\n' {
				i++
			}
		case c == '(':
			stack = append(stack, cur)
			cur = []*sexp{}
			i++
		case c == ')':
			node := &sexp{list: cur}
			if node.list == nil {
				node.list = []*sexp{}
			}
			if len(stack) == 0 {
				return nil
			}
			cur = append(stack[len(stack)-1], node)
			stack = stack[:len(stack)-1]
			i++
		case c == ' ' || c == '\n' || c == '\t' || c == '\r':
			i++
		case c == '|':
			j := i + 1
			for j < len(src) && src[j] != '|' {
				j++
			}
			cur = append(cur, &sexp{atom: src[i : j+1]})
			i = j + 1
		case c == '"':
			j := i + 1
			for j < len(src) && src[j] != '"' {
				j++
			}
			cur = append(cur, &sexp{atom: src[i : j+1]})
			i = j + 1
		default:
			j := i
			for j < len(src) && !strings.ContainsRune(" \n\t\r()", rune(src[j])) {
				j++
			}
			cur = append(cur, &sexp{atom: src[i:j]})
			i = j
		}
	}
	return cur
}

func LoadPrelude(dir string) *Prelude {
	p := &Prelude{files: map[string]string{}, deps: map[string][]string{}, sigs: map[string]fnSig{}}
	files, _ := filepath.Glob(filepath.Join(dir, "*.smt2"))
	for _, f := range files {
		name := strings.TrimSuffix(filepath.Base(f), ".smt2")
		b, err := os.ReadFile(f)
		if err != nil {
			continue
		}
		text := string(b)
		p.files[name] = text
		p.order = append(p.order, name)
		for _, line := range strings.Split(text, "\n") {
			if strings.HasPrefix(line, "; requires:") {
				p.deps[name] = append(p.deps[name], strings.Fields(strings.TrimPrefix(line, "; requires:"))...)
			}
		}
		for _, s := range parseSexps(text) {
			if s.list == nil || len(s.list) < 3 {
				continue
			}
			if name == "fieldring" {
				// alternative interpretation of the field vocabulary: never selected implicitly
				if _, exists := p.sigs[s.list[1].atom]; exists {
					continue
				}
			}
			switch s.list[0].atom {
			case "declare-fun":
				if len(s.list) == 4 {
					var args []string
					for _, a := range s.list[2].list {
						args = append(args, a.String())
					}
					p.sigs[s.list[1].atom] = fnSig{args, s.list[3].String(), name}
				}
			case "declare-const":
				p.sigs[s.list[1].atom] = fnSig{nil, s.list[2].String(), name}
			case "define-fun", "define-fun-rec":
				if len(s.list) >= 5 {
					var args []string
					for _, a := range s.list[2].list {
						if len(a.list) == 2 {
							args = append(args, a.list[1].String())
						}
					}
					p.sigs[s.list[1].atom] = fnSig{args, s.list[3].String(), name}
				}
			}
		}
	}
	return p
}

func (e *Engine) usePrelude(g *Gen, fn string) {
	if sig, ok := e.prelude.sigs[fn]; ok {
		g.use("prelude:" + sig.file)
	}
}

// preludeText returns the concatenated prelude files needed by a unit, dependencies first.
func (p *Prelude) textFor(names []string) string {
	seen := map[string]bool{}
	var out []string
	ring := false
	for _, n := range names {
		if n == "fieldring" {
			ring = true
		}
	}
	var add func(n string)
	add = func(n string) {
		if ring && n == "field" {
			n = "fieldring" // the ring view provides the same vocabulary, interpreted over the integers
		}
		if ring && n != "fieldring" && n != "frint" && n != "bytesint" {
			return // field-specific axioms (order, square roots, inverses) are not valid over the integers
		}
		if seen[n] {
			return
		}
		seen[n] = true
		for _, d := range p.deps[n] {
			add(d)
		}
		if t, ok := p.files[n]; ok {
			out = append(out, "; ---- prelude "+n+" ----\n"+t)
		}
	}
	for _, n := range names {
		add(n)
	}
	return strings.Join(out, "\n")
}
