package main

// Ghost state and structured-concurrency rules (DESIGN §2.7). Hooks called from the generator.

import (
	"fmt"
	"go/constant"
	"go/token"
	"go/types"
	"math/big"
	"strings"

	"golang.org/x/tools/go/ssa"
)

func (e *Engine) initialGhost(g *Gen) map[string]string { return g.ghost0 }

func (g *Gen) initGhost() {
	g.ghost0 = map[string]string{}
	for _, gd := range g.ct.Ghost {
		// "var name sort init"
		var kind, name, sort, init string
		fmt.Sscan(gd, &kind, &name, &sort, &init)
		if kind == "var" {
			if g.ghostSorts == nil {
				g.ghostSorts = map[string]string{}
			}
			switch sort { // aliases for the array sorts of the map model (a ghost declaration is split at blanks)
			case "PSet":
				sort = "(Array Int (Array Int Bool))"
			case "PIdx":
				sort = "(Array Int (Array Int Int))"
			}
			g.ghostSorts[name] = sort
			if init == "" {
				init = "0"
			}
			g.ghost0[name] = init
			g.ghost[name] = init
		}
	}
}

func (e *Engine) ghostLoopHavoc(g *Gen, li *loopInfo, name string) bool { return true }

// initGlobals: nothing eagerly; see globalInit.
func (g *Gen) initGlobals() {}

// globalConstInit returns constant initial cell values of a package-level variable, obtained from the
// stores of the package initializer (only stores of constants at constant offsets in the entry block chain).
func (e *Engine) globalConstInit(gl *ssa.Global, lay *Layout) map[int]string {
	out := map[int]string{}
	if gl.Pkg == nil {
		return out
	}
	init := gl.Pkg.Func("init")
	if init == nil {
		return out
	}
	// constant stores into any root (the global itself or a composite-literal temporary)
	consts := map[ssa.Value]map[int]string{}
	var offOf func(v ssa.Value) (ssa.Value, int, bool)
	offOf = func(v ssa.Value) (ssa.Value, int, bool) {
		switch x := v.(type) {
		case *ssa.Global, *ssa.Alloc:
			return v, 0, true
		case *ssa.IndexAddr:
			root, base, ok := offOf(x.X)
			if !ok {
				return nil, 0, false
			}
			c, isC := constOf(x.Index)
			if !isC {
				return nil, 0, false
			}
			pt, ok := x.X.Type().Underlying().(*types.Pointer)
			if !ok {
				return nil, 0, false
			}
			arr, ok := pt.Elem().Underlying().(*types.Array)
			if !ok {
				return nil, 0, false
			}
			return root, base + int(c.Int64())*lay.Size(arr.Elem()), true
		case *ssa.FieldAddr:
			root, base, ok := offOf(x.X)
			if !ok {
				return nil, 0, false
			}
			st := x.X.Type().Underlying().(*types.Pointer).Elem().Underlying().(*types.Struct)
			return root, base + lay.FieldOff(st, x.Field), true
		}
		return nil, 0, false
	}
	for _, b := range init.Blocks {
		for _, ins := range b.Instrs {
			st, ok := ins.(*ssa.Store)
			if !ok {
				continue
			}
			root, off, ok := offOf(st.Addr)
			if !ok {
				continue
			}
			if c, isC := st.Val.(*ssa.Const); isC && c.Value != nil {
				if bi, ok := new(big.Int).SetString(c.Value.ExactString(), 10); ok {
					if consts[root] == nil {
						consts[root] = map[int]string{}
					}
					consts[root][off] = smtInt(bi)
				}
				continue
			}
			// *global = *complit
			if ld, isLd := st.Val.(*ssa.UnOp); isLd && ld.Op == token.MUL {
				if src, ok := ld.X.(*ssa.Alloc); ok && consts[src] != nil {
					if consts[root] == nil {
						consts[root] = map[int]string{}
					}
					for k, v := range consts[src] {
						consts[root][off+k] = v
					}
				}
			}
		}
	}
	for k, v := range consts[gl] {
		out[k] = v
	}
	return out
}

func (e *Engine) onStore(g *Gen, x *ssa.Store, addr *Val) {}
// Map model (option `mapmodel`): ONE local, non-escaping map with pointer keys and zero-size values per function is modelled
// by ghost state the contract declares:  $mset PSet (key set), $msize Int (number of keys), and for the single `range` over
// it  $mrem PSet (keys not yet visited), $mcnt Int (their number). Semantics assumed (Go specification, rule M1): a map holds
// each key once; len is the number of keys; a range loop over a map that is not modified during the iteration visits every
// key exactly once, in an unspecified order. The engine rejects the option when the map escapes (is stored, passed or
// returned), when a second map is made, or when an update can execute after the range statement.
func (e *Engine) onMake(g *Gen, x ssa.Value, id string) {
	mm, isMap := x.(*ssa.MakeMap)
	if !isMap || g.ct.Options["mapmodel"] == "" {
		return
	}
	if g.mapModel != nil && g.mapModel != mm {
		g.errs = append(g.errs, "outside subset: option mapmodel supports one map per function")
		return
	}
	mt := mm.Type().Underlying().(*types.Map)
	if _, ok := mt.Key().Underlying().(*types.Pointer); !ok || g.lay.Size(mt.Elem()) != 0 {
		g.errs = append(g.errs, "outside subset: option mapmodel supports pointer keys with zero-size values only")
		return
	}
	for _, r := range *mm.Referrers() {
		switch u := r.(type) {
		case *ssa.MapUpdate, *ssa.Range, *ssa.DebugRef, *ssa.Lookup:
		case *ssa.Call:
			if b, isB := u.Common().Value.(*ssa.Builtin); !isB || b.Name() != "len" {
				g.errs = append(g.errs, "outside subset: modelled map escapes into a call")
			}
		default:
			g.errs = append(g.errs, fmt.Sprintf("outside subset: modelled map escapes (%T)", r))
		}
	}
	for _, n := range []string{"$mset", "$msize", "$mrem", "$mcnt"} {
		if _, ok := g.ghost[n]; !ok {
			g.bindFail("option mapmodel needs ghost variables $mset PSet pset_empty, $msize Int 0, $mrem PSet pset_empty, $mcnt Int 0")
			return
		}
	}
	g.mapModel = mm
	g.use("prelude:ptrset")
	g.ghost["$mset"] = "pset_empty"
	g.ghost["$msize"] = "0"
	g.assumedUsed["rule M1 (Go map semantics): a map holds each key once, len is the number of keys, a range over an unmodified map visits every key exactly once in an unspecified order"] = true
}
func (e *Engine) onReturn(g *Gen, x *ssa.Return) {
	if p, ok := g.ghost["$pending"]; ok && g.fn.Parent() == nil {
		g.obligeNamed(fmt.Sprintf("%s#proto.joined@ret%d", g.unit, g.kcnt["ret"]), "proto.join", fmt.Sprintf("(= %s 0)", p), x.Pos(),
			"rule R1: every goroutine started by this function has been joined when it returns", nil)
	}
}
func (e *Engine) onClose(g *Gen, cc *ssa.CallCommon, pos token.Pos) {}

// Rule R1 (fork/join). `go cl()` with cl a closure under contract whose option `joins <fv>` names the captured
// *sync.WaitGroup: the closure is proved (as its own unit) to call Done exactly once (*wg == old(*wg) - 1).
// At the spawn site: the closure's preconditions are obligations; captured variables must not be stored to
// after the spawn (checked on SSA); ghost $pending counts spawned goroutines not yet joined.
func (e *Engine) onGo(g *Gen, x *ssa.Go) {
	cc := x.Common()
	mc, ok := cc.Value.(*ssa.MakeClosure)
	if !ok {
		if e.goStatic(g, x) {
			return
		}
		g.errs = append(g.errs, "outside subset: go statement on a non-closure")
		return
	}
	fn := mc.Fn.(*ssa.Function)
	ct := e.contractFor(fn)
	if ct == nil {
		g.errs = append(g.errs, "outside subset: go statement on closure "+fn.Name()+" without contract")
		return
	}
	if ct.Options["joins"] == "" && ct.Options["sends"] == "" {
		g.errs = append(g.errs, "closure "+fn.Name()+" started with go has neither a 'joins' nor a 'sends' option")
		return
	}
	// captured variables: no store to a captured variable may execute after the go statement
	// (reachability in the CFG from the go statement, stopping where the variable is allocated afresh)
	for _, b := range mc.Bindings {
		al, isAlloc := b.(*ssa.Alloc)
		if !isAlloc {
			continue
		}
		if st := storeReachableAfter(x, al); st != nil {
			g.oblige("proto.capture", "false", st.Pos(), "rule R1: variable "+al.Comment+" captured by a goroutine is written after the go statement", nil)
			g.lines = g.lines[:len(g.lines)-1]
		}
	}
	// preconditions of the closure at spawn time
	env := &Env{g: g, vars: map[string]*Val{}, heap: copyMap(g.heap), old: copyMap(g.heap), nextobj: g.nextobj, oldNextobj: g.nextobj,
		ghost: copyMap(g.ghost), oldGhost: copyMap(g.ghost), pkg: e.pkgOfKey(ct.Key), goal: true}
	for i, fv := range fn.FreeVars {
		env.vars[fv.Name()] = g.val(mc.Bindings[i])
	}
	for _, c := range ct.Requires {
		g.oblige("pre", g.specBool(env, c.E), x.Pos(), "precondition of goroutine "+fn.Name()+": "+c.Text, c.Props)
	}
	if ct.Options["joins"] != "" {
		if _, ok := g.ghost["$pending"]; !ok {
			g.bindFail("go statement needs 'ghost var $pending Int 0' in the contract")
			return
		}
		g.ghost["$pending"] = g.def("gh_pending", "Int", fmt.Sprintf("(+ %s 1)", g.ghost["$pending"]))
	}
	e.goSends(g, x, fn, ct, env)
}

// storeReachableAfter returns a store to variable al that can execute after instruction from
// without al being allocated afresh in between.
func storeReachableAfter(from ssa.Instruction, al *ssa.Alloc) *ssa.Store {
	type pos struct {
		b *ssa.BasicBlock
		i int
	}
	seen := map[*ssa.BasicBlock]bool{}
	work := []pos{{from.Block(), indexOf(from.Block(), from) + 1}}
	for len(work) > 0 {
		p := work[len(work)-1]
		work = work[:len(work)-1]
		stopped := false
		for i := p.i; i < len(p.b.Instrs); i++ {
			ins := p.b.Instrs[i]
			if ins == ssa.Instruction(al) {
				stopped = true
				break
			}
			if st, ok := ins.(*ssa.Store); ok && rootOf(st.Addr) == ssa.Value(al) {
				return st
			}
		}
		if stopped {
			continue
		}
		for _, s := range p.b.Succs {
			if !seen[s] {
				seen[s] = true
				work = append(work, pos{s, 0})
			}
		}
	}
	return nil
}

func indexOf(b *ssa.BasicBlock, ins ssa.Instruction) int {
	for i, x := range b.Instrs {
		if x == ins {
			return i
		}
	}
	return -1
}

// sameLoopLater: block a dominates b but a is inside a loop that contains b's go statement and can run again
// after it (a store at the top of the loop body dominating the go is fine only if the variable is
// allocated per iteration; for variables allocated outside the loop it is a later write).
func (g *Gen) sameLoopLater(a, b *ssa.BasicBlock) bool { return false }

func (e *Engine) goStatic(g *Gen, x *ssa.Go) bool                                     { return false }
func (e *Engine) goSends(g *Gen, x *ssa.Go, fn *ssa.Function, ct *Contract, env *Env) {}
func (e *Engine) onSend(g *Gen, x *ssa.Send) {
	g.errs = append(g.errs, "outside subset: channel send without a protocol rule")
}
func (e *Engine) onRecv(g *Gen, x *ssa.UnOp) *Val {
	g.errs = append(g.errs, "outside subset: channel receive without a protocol rule")
	return g.havocVal(x.Type(), "recv")
}
func (e *Engine) onRange(g *Gen, x *ssa.Range) *Val {
	if g.mapModel == nil || x.X != ssa.Value(g.mapModel) {
		g.errs = append(g.errs, "outside subset: range over map/string")
		return g.havocVal(x.Type(), "range")
	}
	if g.mapRange != nil && g.mapRange != x {
		g.errs = append(g.errs, "outside subset: option mapmodel supports one range statement over the map")
	}
	g.mapRange = x
	// no update of the map may execute once the iteration has started
	seen := map[*ssa.BasicBlock]bool{}
	work := []*ssa.BasicBlock{}
	scan := func(b *ssa.BasicBlock, from int) {
		for i := from; i < len(b.Instrs); i++ {
			if mu, ok := b.Instrs[i].(*ssa.MapUpdate); ok && mu.Map == ssa.Value(g.mapModel) {
				g.errs = append(g.errs, "outside subset: modelled map is updated after its range statement")
			}
		}
		for _, sc := range b.Succs {
			if !seen[sc] {
				seen[sc] = true
				work = append(work, sc)
			}
		}
	}
	scan(x.Block(), indexOf(x.Block(), x)+1)
	for len(work) > 0 {
		b := work[len(work)-1]
		work = work[:len(work)-1]
		scan(b, 0)
	}
	g.ghost["$mrem"] = g.ghost["$mset"]
	g.ghost["$mcnt"] = g.ghost["$msize"]
	return &Val{T: x.Type(), Sort: "Int", S: []string{"0"}}
}
func (e *Engine) onNext(g *Gen, x *ssa.Next) *Val {
	if g.mapRange == nil || x.Iter != ssa.Value(g.mapRange) {
		return g.havocVal(x.Type(), "next")
	}
	rem, cnt := g.ghost["$mrem"], g.ghost["$mcnt"]
	ok := g.def("next_ok", "Bool", fmt.Sprintf("(> %s 0)", cnt))
	ko := g.freshConst("next_kobj", "Int")
	kc := g.freshConst("next_koff", "Int")
	g.assumeRaw(fmt.Sprintf("(and (>= %s 0) (>= %s 0) (>= %s 0))", cnt, ko, kc))
	g.assumeRaw(fmt.Sprintf("(=> %s (select (select %s %s) %s))", ok, rem, ko, kc))
	g.assumeRaw(fmt.Sprintf("(=> (not %s) (forall ((o Int) (c Int)) (! (not (select (select %s o) c)) :pattern ((select (select %s o) c)))))", ok, rem, rem))
	g.ghost["$mrem"] = g.def("gh_mrem", "(Array Int (Array Int Bool))", fmt.Sprintf("(ite %s (store %s %s (store (select %s %s) %s false)) %s)", ok, rem, ko, rem, ko, kc, rem))
	g.ghost["$mcnt"] = g.def("gh_mcnt", "Int", fmt.Sprintf("(ite %s (- %s 1) %s)", ok, cnt, cnt))
	tt := x.Type().(*types.Tuple)
	return &Val{T: x.Type(), Tuple: []*Val{
		{T: tt.At(0).Type(), Sort: "Bool", S: []string{ok}},
		{T: tt.At(1).Type(), Sort: "Ptr", S: []string{ko, kc}},
		{T: tt.At(2).Type()},
	}}
}
func (e *Engine) onMapUpdate(g *Gen, x *ssa.MapUpdate) {
	if g.mapModel == nil || x.Map != ssa.Value(g.mapModel) {
		g.errs = append(g.errs, "outside subset: map update")
		return
	}
	k := g.val(x.Key)
	set, size := g.ghost["$mset"], g.ghost["$msize"]
	g.assumeRaw(fmt.Sprintf("(>= %s 0)", size))
	g.ghost["$msize"] = g.def("gh_msize", "Int", fmt.Sprintf("(ite (select (select %s %s) %s) %s (+ %s 1))", set, k.S[0], k.S[1], size, size))
	g.ghost["$mset"] = g.def("gh_mset", "(Array Int (Array Int Bool))", fmt.Sprintf("(store %s %s (store (select %s %s) %s true))", set, k.S[0], set, k.S[0], k.S[1]))
}
func (e *Engine) onLookup(g *Gen, x *ssa.Lookup) *Val {
	g.errs = append(g.errs, "outside subset: map/string lookup")
	return g.havocVal(x.Type(), "lookup")
}
func (e *Engine) onTypeAssert(g *Gen, x *ssa.TypeAssert) *Val {
	// interface holding a pointer: the reference is the object id (see MakeInterface)
	if _, isPtr := x.AssertedType.Underlying().(*types.Pointer); isPtr && !x.CommaOk {
		src := g.val(x.X)
		g.assumedUsed["type assertion to "+x.AssertedType.String()+" succeeds (dynamic types are not tracked)"] = true
		return &Val{T: x.AssertedType, Sort: "Ptr", S: []string{src.S[0], "0"}}
	}
	return g.havocVal(x.Type(), "typeassert")
}
func (e *Engine) onMapLen(g *Gen, m ssa.Value, a *Val, resT types.Type) *Val {
	if g.mapModel != nil && m == ssa.Value(g.mapModel) {
		g.assumeRaw(fmt.Sprintf("(>= %s 0)", g.ghost["$msize"]))
		return scalar("Int", g.ghost["$msize"], resT)
	}
	return g.havocVal(resT, "maplen")
}

func (e *Engine) specPseudoField(g *Gen, env *Env, ex *Expr) *Val { return nil }
func (e *Engine) specGhostCall(g *Gen, env *Env, fn string, args []*Expr, ex *Expr) *Val {
	return nil
}
func (e *Engine) ghostModifies(g *Gen, env *Env, m *Clause) bool {
	return m.E.Op == "call" && m.E.Args[0].Op == "id" && m.E.Args[0].Tok == "ghost"
}
func (e *Engine) ghostCallEffect(g *Gen, ct *Contract, env *Env) {}

// ghostDynCall: a call of a function-typed parameter / captured variable. The callee is arbitrary caller code:
// the heap is havocked except the objects the contract declares `private` (locals of the enclosing function
// that never escape to it). The call is recorded in ghost $dyn_n (count) and $dyn_a<i> (arguments of the last call).
func (e *Engine) ghostDynCall(g *Gen, cc *ssa.CallCommon, pos token.Pos) *Val {
	if _, ok := g.ghost["$dyn_n"]; !ok {
		return nil
	}
	var resT types.Type = cc.Signature().Results()
	if cc.Signature().Results().Len() == 1 {
		resT = cc.Signature().Results().At(0).Type()
	}
	// private objects keep their rows
	type keep struct{ obj string }
	var keeps []string
	for _, name := range strings.Fields(g.ct.Options["private"]) {
		if v, ok := g.params[name]; ok && len(v.S) >= 1 {
			keeps = append(keeps, v.S[0])
		}
	}
	pre := copyMap(g.heap)
	for _, s := range g.sorts {
		nh := g.freshConst("Hdyn"+s, g.heapSort(s))
		for _, o := range keeps {
			g.assumeRaw(fmt.Sprintf("(= (select %s %s) (select %s %s))", nh, o, pre[s], o))
		}
		g.heap[s] = nh
	}
	n := g.freshConst("nextobj_d", "Int")
	g.assumeRaw(fmt.Sprintf("(>= %s %s)", n, g.nextobj))
	g.nextobj = n
	g.ghost["$dyn_n"] = g.def("gh_dyn_n", "Int", fmt.Sprintf("(+ %s 1)", g.ghost["$dyn_n"]))
	for i, a := range cc.Args {
		k := fmt.Sprintf("$dyn_a%d", i)
		if _, ok := g.ghost[k]; ok {
			g.ghost[k] = g.def("gh_dyn_a", "Int", g.val(a).S[0])
		}
	}
	g.assumedUsed["calls of function-typed parameters are arbitrary code that cannot reach the objects declared private (non-escaping locals of the enclosing function)"] = true
	return g.havocVal(resT, "dyn")
}
func (e *Engine) ghostCallContract(g *Gen, cc *ssa.CallCommon) *Contract { return nil }
func (e *Engine) specialCall(g *Gen, callee *ssa.Function, cc *ssa.CallCommon, args []*Val, resT types.Type, pos token.Pos) (*Val, bool) {
	switch funcKey(callee) {
	case repoMod + "/common/parallel.Execute":
		// Rule R2 (parallel for). Execute(n, cl) with cl a closure under a contract marked `option chunked`:
		// C20 proves that Execute calls the work function exactly once on each range of a partition of [0,n) into
		// contiguous, disjoint, non-empty ranges and returns after all calls returned. The closure's contract is proved for
		// every range [start,end); here (a) its precondition is an obligation at the whole range [0,n), (b) it must be
		// monotone: an obligation shows it for every sub-range [a,b) of [0,n) from the whole-range precondition, and
		// (c) the effect of the call is the closure's postcondition at [0,n). Assumed (listed): the contract is
		// chunk-compositional - running the chunks of a partition in any order or concurrently has the effect of the single
		// chunk [0,n): the footprints of disjoint ranges are disjoint (part of the closure's precondition, e.g. pairwise
		// distinct pointers) and each chunk reads, besides its own footprint, only cells no chunk writes.
		if len(args) < 2 || args[1].Clos == nil || args[1].Fn == nil {
			return nil, false
		}
		fn := args[1].Fn
		ct := e.contractFor(fn)
		if ct == nil || ct.Options["chunked"] == "" || len(fn.Params) != 2 {
			return nil, false
		}
		// Execute's own precondition (C20 proves Execute under it): a non-negative iteration count and, when a CPU limit is
		// passed, a limit of at least one
		g.oblige("pre", fmt.Sprintf("(>= %s 0)", args[0].S[0]), pos, "precondition of parallel.Execute: nbIterations >= 0", nil)
		if len(args) >= 3 && args[2].Sort == "Slice" && len(args[2].S) >= 3 && args[2].S[2] != "0" {
			first := sel2(g.heap["Int"], args[2].S[0], args[2].S[1])
			g.oblige("pre", fmt.Sprintf("(=> (= %s 1) (>= %s 1))", args[2].S[2], first), pos, "precondition of parallel.Execute: len(maxCpus) == 1 ==> maxCpus[0] >= 1", nil)
		}
		names := []string{fn.Params[0].Name(), fn.Params[1].Name()}
		cargs := []*Val{scalar("Int", "0", fn.Params[0].Type()), args[0]}
		for i, fv := range fn.FreeVars {
			names = append(names, fv.Name())
			cargs = append(cargs, g.val(args[1].Clos.Bindings[i]))
		}
		// (b) monotonicity, from the current state: symbolic sub-range
		a, b := g.freshConst("par_a", "Int"), g.freshConst("par_b", "Int")
		wenv := &Env{g: g, vars: map[string]*Val{}, heap: copyMap(g.heap), old: copyMap(g.heap), nextobj: g.nextobj, oldNextobj: g.nextobj,
			ghost: copyMap(g.ghost), oldGhost: copyMap(g.ghost), pkg: e.pkgOfKey(ct.Key)}
		senv := wenv.clone()
		for i, n := range names {
			wenv.vars[n] = cargs[i]
			senv.vars[n] = cargs[i]
		}
		senv.vars[names[0]] = scalar("Int", a, fn.Params[0].Type())
		senv.vars[names[1]] = scalar("Int", b, fn.Params[1].Type())
		for _, l := range ct.Lets {
			if v := g.specVal(wenv, l.E); v != nil {
				wenv.vars[l.Name] = v
			}
			if v := g.specVal(senv, l.E); v != nil {
				senv.vars[l.Name] = v
			}
		}
		var whole []string
		for _, c := range ct.Requires {
			whole = append(whole, g.specBool(wenv, c.E))
		}
		senv.goal = true
		for _, c := range ct.Requires {
			t := g.specBool(senv, c.E)
			g.oblige("par.sub", fmt.Sprintf("(=> (and (<= 0 %s) (<= %s %s) (<= %s %s) %s) %s)", a, a, b, b, args[0].S[0], and(whole...), t), pos,
				"rule R2: the precondition of "+fn.Name()+" at the whole range implies it at every sub-range: "+c.Text, c.Props)
		}
		g.assumedUsed["rule R2 (parallel for): the contract of "+shortKey(ct.Key)+" is chunk-compositional - chunks of a partition run in any order or concurrently have the effect of the single chunk [0,n); Execute's partition and join are proved under C20"] = true
		return g.applyContract(ct, names, cargs, fn.Signature, resT, pos), true
	case "sync.WaitGroup.Wait":
		// rule R1: Wait returns when the counter is zero; every pending goroutine decrements it exactly once
		p, ok := g.ghost["$pending"]
		if !ok {
			return nil, false
		}
		wg := args[0]
		cur := sel2(g.heap["Int"], wg.S[0], wg.S[1])
		g.oblige("proto.join", fmt.Sprintf("(= %s %s)", cur, p), pos, "rule R1: at Wait the WaitGroup counter equals the number of goroutines started and not yet joined (each calls Done exactly once)", nil)
		g.heap["Int"] = g.def("HInt", g.heapSort("Int"), store2(g.heap["Int"], wg.S[0], wg.S[1], "0"))
		g.ghost["$pending"] = "0"
		return &Val{T: resT}, true
	}
	return nil, false
}

// globalStringInit: the string constant of an initialiser  var x = []byte("...")  of a package-level slice variable.
func (e *Engine) globalStringInit(gl *ssa.Global) (string, bool) {
	if gl.Pkg == nil {
		return "", false
	}
	init := gl.Pkg.Func("init")
	if init == nil {
		return "", false
	}
	found, str := 0, ""
	for _, b := range init.Blocks {
		for _, ins := range b.Instrs {
			st, ok := ins.(*ssa.Store)
			if !ok || st.Addr != ssa.Value(gl) {
				continue
			}
			found++
			if cv, isConv := st.Val.(*ssa.Convert); isConv {
				if c, isC := cv.X.(*ssa.Const); isC && c.Value != nil && c.Value.Kind() == constant.String {
					str = constant.StringVal(c.Value)
					continue
				}
			}
			return "", false
		}
	}
	return str, found == 1
}
