package main

// Ghost state and structured-concurrency rules (DESIGN §2.7). Hooks called from the generator.

import (
	"fmt"
	"go/token"
	"go/types"
	"math/big"

	"golang.org/x/tools/go/ssa"
)

func (e *Engine) initialGhost(g *Gen) map[string]string { return g.ghost0 }

func (g *Gen) initGhost() {
	g.ghost0 = map[string]string{}
	for _, gd := range g.ct.Ghost {
		// "var name sort init"
		var kind, name, sort, init string
		fmt.Sscan(gd, &kind, &name, &sort, &init)
		if kind == "var" {
			ghostSorts[name] = sort
			if init == "" {
				init = "0"
			}
			g.ghost0[name] = init
			g.ghost[name] = init
		}
	}
}

func (e *Engine) ghostLoopHavoc(g *Gen, li *loopInfo, name string) bool { return true }

// initGlobals: nothing eagerly; see globalInit.
func (g *Gen) initGlobals() {}

// globalConstInit returns constant initial cell values of a package-level variable, obtained from the
// stores of the package initializer (only stores of constants at constant offsets in the entry block chain).
func (e *Engine) globalConstInit(gl *ssa.Global, lay *Layout) map[int]string {
	out := map[int]string{}
	if gl.Pkg == nil {
		return out
	}
	init := gl.Pkg.Func("init")
	if init == nil {
		return out
	}
	// constant stores into any root (the global itself or a composite-literal temporary)
	consts := map[ssa.Value]map[int]string{}
	var offOf func(v ssa.Value) (ssa.Value, int, bool)
	offOf = func(v ssa.Value) (ssa.Value, int, bool) {
		switch x := v.(type) {
		case *ssa.Global, *ssa.Alloc:
			return v, 0, true
		case *ssa.IndexAddr:
			root, base, ok := offOf(x.X)
			if !ok {
				return nil, 0, false
			}
			c, isC := constOf(x.Index)
			if !isC {
				return nil, 0, false
			}
			pt, ok := x.X.Type().Underlying().(*types.Pointer)
			if !ok {
				return nil, 0, false
			}
			arr, ok := pt.Elem().Underlying().(*types.Array)
			if !ok {
				return nil, 0, false
			}
			return root, base + int(c.Int64())*lay.Size(arr.Elem()), true
		case *ssa.FieldAddr:
			root, base, ok := offOf(x.X)
			if !ok {
				return nil, 0, false
			}
			st := x.X.Type().Underlying().(*types.Pointer).Elem().Underlying().(*types.Struct)
			return root, base + lay.FieldOff(st, x.Field), true
		}
		return nil, 0, false
	}
	for _, b := range init.Blocks {
		for _, ins := range b.Instrs {
			st, ok := ins.(*ssa.Store)
			if !ok {
				continue
			}
			root, off, ok := offOf(st.Addr)
			if !ok {
				continue
			}
			if c, isC := st.Val.(*ssa.Const); isC && c.Value != nil {
				if bi, ok := new(big.Int).SetString(c.Value.ExactString(), 10); ok {
					if consts[root] == nil {
						consts[root] = map[int]string{}
					}
					consts[root][off] = smtInt(bi)
				}
				continue
			}
			// *global = *complit
			if ld, isLd := st.Val.(*ssa.UnOp); isLd && ld.Op == token.MUL {
				if src, ok := ld.X.(*ssa.Alloc); ok && consts[src] != nil {
					if consts[root] == nil {
						consts[root] = map[int]string{}
					}
					for k, v := range consts[src] {
						consts[root][off+k] = v
					}
				}
			}
		}
	}
	for k, v := range consts[gl] {
		out[k] = v
	}
	return out
}

func (e *Engine) onStore(g *Gen, x *ssa.Store, addr *Val)           {}
func (e *Engine) onMake(g *Gen, x ssa.Value, id string)              {}
func (e *Engine) onReturn(g *Gen, x *ssa.Return)                     {}
func (e *Engine) onClose(g *Gen, cc *ssa.CallCommon, pos token.Pos) {}

func (e *Engine) onGo(g *Gen, x *ssa.Go) {
	g.errs = append(g.errs, "outside subset: go statement without a protocol rule")
}
func (e *Engine) onSend(g *Gen, x *ssa.Send) {
	g.errs = append(g.errs, "outside subset: channel send without a protocol rule")
}
func (e *Engine) onRecv(g *Gen, x *ssa.UnOp) *Val {
	g.errs = append(g.errs, "outside subset: channel receive without a protocol rule")
	return g.havocVal(x.Type(), "recv")
}
func (e *Engine) onRange(g *Gen, x *ssa.Range) *Val {
	g.errs = append(g.errs, "outside subset: range over map/string")
	return g.havocVal(x.Type(), "range")
}
func (e *Engine) onNext(g *Gen, x *ssa.Next) *Val {
	return g.havocVal(x.Type(), "next")
}
func (e *Engine) onMapUpdate(g *Gen, x *ssa.MapUpdate) {
	g.errs = append(g.errs, "outside subset: map update")
}
func (e *Engine) onLookup(g *Gen, x *ssa.Lookup) *Val {
	g.errs = append(g.errs, "outside subset: map/string lookup")
	return g.havocVal(x.Type(), "lookup")
}
func (e *Engine) onTypeAssert(g *Gen, x *ssa.TypeAssert) *Val {
	return g.havocVal(x.Type(), "typeassert")
}
func (e *Engine) onMapLen(g *Gen, m ssa.Value, a *Val, resT types.Type) *Val {
	return g.havocVal(resT, "maplen")
}

func (e *Engine) specPseudoField(g *Gen, env *Env, ex *Expr) *Val { return nil }
func (e *Engine) specGhostCall(g *Gen, env *Env, fn string, args []*Expr, ex *Expr) *Val {
	return nil
}
func (e *Engine) ghostModifies(g *Gen, env *Env, m *Clause) bool {
	return m.E.Op == "call" && m.E.Args[0].Op == "id" && m.E.Args[0].Tok == "ghost"
}
func (e *Engine) ghostCallEffect(g *Gen, ct *Contract, env *Env)                 {}
func (e *Engine) ghostDynCall(g *Gen, cc *ssa.CallCommon, pos token.Pos) *Val { return nil }
func (e *Engine) ghostCallContract(g *Gen, cc *ssa.CallCommon) *Contract       { return nil }
func (e *Engine) specialCall(g *Gen, callee *ssa.Function, cc *ssa.CallCommon, args []*Val, resT types.Type, pos token.Pos) (*Val, bool) {
	return nil, false
}
