package main

// Replay of failed obligations against the real code.
//
// For an obligation whose negation the solver finds satisfiable, the counterexample is turned into a concrete call of the
// real function: (1) the failing query is re-run with (get-value ...) for the cells of every parameter; (2) an in-package
// Go test that builds those arguments, calls the function and prints the observable outputs (pointees of pointer
// parameters, results, panic) is injected with `go test -overlay` (nothing is written to /repo); (3) the observed outputs
// are pinned in the same query (post-state cells and result terms of the return the obligation belongs to) and it is
// solved again: if it is still satisfiable, the real execution itself violates the obligation and the input is reported
// as a failing input; for panic obligations (index, nil, division, conversion) the real run panicking is the confirmation.
// If the pinned query is unsatisfiable the model was an artefact of a loose callee contract and no failing input is claimed.
//
// Supported: functions whose parameters are integers, booleans, aggregates of those (field elements as limbs, byte
// arrays), pointers to such aggregates and slices of them (integer view of the heap). Anything else (interfaces, function
// values, pointer-holding structures, abstract sorts Fp/Fr/Bytes/G) is reported as not replayable.

import (
	"context"
	"encoding/json"
	"fmt"
	"go/types"
	"math/big"
	"os"
	"os/exec"
	"path/filepath"
	"regexp"
	"sort"
	"strings"
	"time"

	"golang.org/x/tools/go/ssa"
)

type retState struct {
	heapInt string
	results []*Val
}

const replayMaxSliceLen = 512

func replayObligation(r *Report, o *Obligation) map[string]interface{} {
	no := func(why string) map[string]interface{} {
		return map[string]interface{}{"failing_input_found": false, "note": why}
	}
	var g *Gen
	for _, u := range r.units {
		if u.unit == o.Unit {
			g = u
		}
	}
	if g == nil || g.fn == nil || o.MustSat || o.Kind == "lemma" || o.Kind == "sweep" {
		return no("no replay for this obligation kind")
	}
	for _, s := range g.sorts {
		if s != "Int" {
			return no("unit uses abstract sorts (" + s + "): models over uninterpreted sorts have no concrete inputs")
		}
	}
	rp := &replayer{g: g, o: o, imports: map[string]string{}}
	if !rp.describeParams() {
		return no("parameter types outside the replayable class: " + rp.why)
	}
	// Candidate inputs come from models of the failing query as it was posed (abstractions such as opaque definitions
	// included); each candidate is run on the real code and then judged by the same query with every definition transparent
	// and inputs and observed outputs pinned, which is a ground evaluation. Up to replayTries models are tried.
	base := strings.TrimSuffix(strings.TrimSpace(g.smtFor(o)), "(get-model)")
	g.replayMode = true
	baseT := strings.TrimSuffix(strings.TrimSpace(g.smtFor(o)), "(get-model)")
	g.replayMode = false
	baseT = strings.Replace(baseT, "(check-sat)", "", 1)
	var last map[string]interface{}
	block := ""
	for try := 0; try < replayTries; try++ {
		rec, again, blk := rp.attempt(r, base+"\n", baseT, block)
		last = rec
		if rec["failing_input_found"] == true || !again {
			rec["candidates_tried"] = try + 1
			return rec
		}
		block += blk
	}
	if last != nil {
		last["candidates_tried"] = replayTries
	}
	return last
}

const replayTries = 4

// attempt replays one model; again reports whether another candidate is worth trying, blk is the clause excluding this one.
func (rp *replayer) attempt(r *Report, base, baseT, block string) (rec map[string]interface{}, again bool, blk string) {
	o := rp.o
	no := func(why string) map[string]interface{} {
		return map[string]interface{}{"failing_input_found": false, "note": why}
	}
	rp.sliceTerms, rp.sliceVals = nil, nil
	q := strings.Replace(base, "(check-sat)", block+"(check-sat)", 1)
	vals, verdict := rp.getValues(q, rp.inputTerms())
	if vals == nil {
		return no("solver gives no model for this obligation (" + verdict + ")"), false, ""
	}
	rp.inVals = vals
	var diff []string
	for i, t := range rp.inputTerms() {
		diff = append(diff, fmt.Sprintf("(= %s %s)", t, smtInt(vals[i])))
	}
	blk = "(assert (not (and " + strings.Join(diff, " ") + ")))\n"
	if extra := rp.sliceContentTerms(); len(extra) > 0 {
		pin := rp.pinLines(rp.inputTerms(), vals)
		cv, v2 := rp.getValues(strings.Replace(q, "(check-sat)", pin+"(check-sat)", 1), extra)
		if cv == nil {
			return no("solver gives no model for slice contents (" + v2 + ")"), false, blk
		}
		rp.sliceTerms, rp.sliceVals = extra, cv
	}
	src, ok := rp.testSource()
	if !ok {
		return no("could not build a call from the model: " + rp.why), true, blk
	}
	out, runErr := rp.run(r.eng.repoDir, src)
	rec = map[string]interface{}{"failing_input_found": false, "inputs": rp.describeInputs(), "go_test": src}
	if runErr != "" {
		rec["note"] = "replay run failed: " + runErr
		return rec, false, blk
	}
	rec["observed"] = out
	panicked := strings.Contains(out, "GOVC-PANIC")
	switch o.Kind {
	case "idx", "nil", "div", "ovf", "slice", "panic", "conv", "assert.type":
		if panicked {
			rec["failing_input_found"] = true
			rec["note"] = "the real function panics on the model's input"
			return rec, false, blk
		}
		rec["note"] = "the real function does not panic on the model's input (the model exploits a loose contract of a callee or the overflow is benign)"
		return rec, true, blk
	}
	if panicked {
		rec["failing_input_found"] = true
		rec["note"] = "the real function panics on the model's input"
		return rec, false, blk
	}
	if o.Kind != "post" && o.Kind != "frame" {
		rec["note"] = "inputs replayed; internal assertion / invariant states are not observable from outside the function"
		return rec, false, blk
	}
	m := regexp.MustCompile(`GOVC-OUT(.*)`).FindStringSubmatch(out)
	if m == nil {
		rec["note"] = "replay produced no output line"
		return rec, false, blk
	}
	obs := strings.Fields(m[1])
	outTerms := rp.outputTerms()
	if outTerms == nil || len(obs) != len(outTerms) {
		rec["note"] = fmt.Sprintf("observed %d output cells, expected %d: outputs not pinned", len(obs), len(outTerms))
		return rec, false, blk
	}
	var pins []string
	pins = append(pins, rp.pinLines(rp.inputTerms(), rp.inVals))
	if len(rp.sliceTerms) > 0 {
		pins = append(pins, rp.pinLines(rp.sliceTerms, rp.sliceVals))
	}
	for i, t := range outTerms {
		if t == "" {
			continue
		}
		v, okv := new(big.Int).SetString(obs[i], 10)
		if !okv {
			continue
		}
		if strings.HasPrefix(t, "bool:") {
			b := "false"
			if v.Sign() != 0 {
				b = "true"
			}
			pins = append(pins, fmt.Sprintf("(assert (= %s %s))", strings.TrimPrefix(t, "bool:"), b))
		} else if strings.HasPrefix(t, "nil:") {
			if v.Sign() == 0 {
				pins = append(pins, fmt.Sprintf("(assert (= %s 0))", strings.TrimPrefix(t, "nil:")))
			} else {
				pins = append(pins, fmt.Sprintf("(assert (not (= %s 0)))", strings.TrimPrefix(t, "nil:")))
			}
		} else {
			pins = append(pins, fmt.Sprintf("(assert (= %s %s))", t, smtInt(v)))
		}
	}
	verdict2 := rp.solve(baseT + "\n" + strings.Join(pins, "\n") + "\n(check-sat)\n")
	rec["pinned_verdict"] = verdict2
	if verdict2 == "sat" {
		rec["failing_input_found"] = true
		rec["note"] = "the real execution on this input violates the obligation (the query, with every definition transparent, stays satisfiable with the inputs and the observed outputs pinned)"
		return rec, false, blk
	}
	rec["note"] = "with the observed outputs pinned the obligation holds for this input (" + verdict2 + "): the model was not a real execution"
	return rec, verdict2 == "unsat", blk
}

type rparam struct {
	name  string
	t     types.Type
	v     *Val
	kind  string // scalar, bool, agg, ptr, slice
	elem  types.Type
	cells int
}

type replayer struct {
	g          *Gen
	o          *Obligation
	why        string
	params     []rparam
	inVals     []*big.Int
	sliceTerms []string
	sliceVals  []*big.Int
	imports    map[string]string
}

func flatInts(lay *Layout, t types.Type) bool {
	ok := true
	func() {
		defer func() {
			if recover() != nil {
				ok = false
			}
		}()
		for _, c := range lay.Cells(t) {
			if c.Sort != "Int" || c.Role != "" || c.T == nil {
				ok = false
			}
		}
	}()
	return ok
}

func (rp *replayer) describeParams() bool {
	g := rp.g
	for _, p := range g.fn.Params {
		v := g.vals[p]
		if v == nil {
			rp.why = "unbound parameter " + p.Name()
			return false
		}
		d := rparam{name: p.Name(), t: p.Type(), v: v}
		switch u := p.Type().Underlying().(type) {
		case *types.Basic:
			if u.Info()&types.IsBoolean != 0 {
				d.kind = "bool"
			} else if u.Info()&types.IsInteger != 0 {
				d.kind = "scalar"
			} else {
				rp.why = p.Name() + " has type " + p.Type().String()
				return false
			}
		case *types.Pointer:
			if !flatInts(g.lay, u.Elem()) {
				rp.why = p.Name() + " points to " + u.Elem().String()
				return false
			}
			d.kind, d.elem, d.cells = "ptr", u.Elem(), g.lay.Size(u.Elem())
		case *types.Slice:
			if !flatInts(g.lay, u.Elem()) {
				rp.why = p.Name() + " is a slice of " + u.Elem().String()
				return false
			}
			d.kind, d.elem, d.cells = "slice", u.Elem(), g.lay.Size(u.Elem())
		case *types.Array, *types.Struct:
			if !flatInts(g.lay, p.Type()) {
				rp.why = p.Name() + " has type " + p.Type().String()
				return false
			}
			d.kind, d.cells = "agg", g.lay.Size(p.Type())
		default:
			rp.why = p.Name() + " has type " + p.Type().String()
			return false
		}
		rp.params = append(rp.params, d)
	}
	if len(g.fn.FreeVars) > 0 {
		rp.why = "closure with captured variables"
		return false
	}
	return true
}

// inputTerms: per parameter, the SMT terms whose model values define the argument.
func (rp *replayer) inputTerms() []string {
	var ts []string
	for _, p := range rp.params {
		switch p.kind {
		case "scalar", "agg":
			ts = append(ts, p.v.S...)
		case "bool":
			if p.v.Sort == "Bool" {
				ts = append(ts, fmt.Sprintf("(ite %s 1 0)", p.v.S[0]))
			} else {
				ts = append(ts, p.v.S[0])
			}
		case "ptr":
			ts = append(ts, p.v.S[0], p.v.S[1])
			for k := 0; k < p.cells; k++ {
				ts = append(ts, fmt.Sprintf("(select (select H0_Int %s) (+ %s %d))", p.v.S[0], p.v.S[1], k))
			}
		case "slice":
			ts = append(ts, p.v.S[0], p.v.S[1], p.v.S[2], p.v.S[3])
		}
	}
	return ts
}

// value of the i-th input term group for parameter index pi
func (rp *replayer) paramVals(pi int) []*big.Int {
	idx := 0
	for i, p := range rp.params {
		n := 0
		switch p.kind {
		case "scalar", "agg":
			n = len(p.v.S)
		case "bool":
			n = 1
		case "ptr":
			n = 2 + p.cells
		case "slice":
			n = 4
		}
		if i == pi {
			return rp.inVals[idx : idx+n]
		}
		idx += n
	}
	return nil
}

func (rp *replayer) sliceContentTerms() []string {
	var ts []string
	for i, p := range rp.params {
		if p.kind != "slice" {
			continue
		}
		pv := rp.paramVals(i)
		ln := int(pv[2].Int64())
		if ln < 0 || ln > replayMaxSliceLen {
			continue
		}
		for k := 0; k < ln*p.cells; k++ {
			ts = append(ts, fmt.Sprintf("(select (select H0_Int %s) (+ %s %d))", p.v.S[0], p.v.S[1], k))
		}
	}
	return ts
}

func (rp *replayer) pinLines(terms []string, vals []*big.Int) string {
	var b strings.Builder
	for i, t := range terms {
		if i < len(vals) && vals[i] != nil {
			fmt.Fprintf(&b, "(assert (= %s %s))\n", t, smtInt(vals[i]))
		}
	}
	return b.String()
}

func (rp *replayer) solve(q string) string {
	home, _ := os.UserHomeDir()
	f, err := os.CreateTemp(home, ".govc-replay-*.smt2")
	if err != nil {
		return "error"
	}
	defer os.Remove(f.Name())
	f.WriteString(q)
	f.Close()
	res := runSolver(context.Background(), solvers[0], f.Name(), 20)
	return res.verdict
}

// getValues runs query + (get-value terms) and returns the integer values (nil if the query is not sat).
func (rp *replayer) getValues(base string, terms []string) ([]*big.Int, string) {
	if len(terms) == 0 {
		return []*big.Int{}, "sat"
	}
	home, _ := os.UserHomeDir()
	f, err := os.CreateTemp(home, ".govc-replay-*.smt2")
	if err != nil {
		return nil, "error"
	}
	defer os.Remove(f.Name())
	q := base
	if !strings.Contains(q, "(check-sat)") {
		q += "\n(check-sat)"
	}
	q += "\n(get-value (" + strings.Join(terms, " ") + "))\n"
	f.WriteString(q)
	f.Close()
	ctx, cancel := context.WithTimeout(context.Background(), 25*time.Second)
	defer cancel()
	cmd := exec.CommandContext(ctx, "z3-new", "-T:20", "-smt2", f.Name())
	ob, _ := cmd.CombinedOutput()
	text := string(ob)
	lines := strings.SplitN(strings.TrimSpace(text), "\n", 2)
	if len(lines) < 2 || strings.TrimSpace(lines[0]) != "sat" {
		v := "unknown"
		if len(lines) > 0 {
			v = strings.TrimSpace(lines[0])
		}
		return nil, v
	}
	sx := parseSexps(lines[1])
	if len(sx) != 1 || len(sx[0].list) != len(terms) {
		return nil, "unparsed model"
	}
	out := make([]*big.Int, len(terms))
	for i, pair := range sx[0].list {
		if len(pair.list) != 2 {
			return nil, "unparsed model"
		}
		v := pair.list[1]
		neg := false
		if v.list != nil && len(v.list) == 2 && v.list[0].atom == "-" {
			neg = true
			v = v.list[1]
		}
		n, ok := new(big.Int).SetString(v.atom, 10)
		if !ok {
			return nil, "non-integer model value " + v.String()
		}
		if neg {
			n.Neg(n)
		}
		out[i] = n
	}
	return out, "sat"
}

func (rp *replayer) typeStr(t types.Type) string {
	pkg := rp.g.fn.Pkg.Pkg
	return types.TypeString(t, func(p *types.Package) string {
		if p == pkg {
			return ""
		}
		rp.imports[p.Path()] = p.Name()
		return p.Name()
	})
}

// setCells emits assignments of the leaf cells of the Go lvalue expr (of type t) from vals[*idx:].
func (rp *replayer) setCells(t types.Type, expr string, vals []*big.Int, idx *int, out *[]string) bool {
	switch u := t.Underlying().(type) {
	case *types.Basic:
		if *idx >= len(vals) || vals[*idx] == nil {
			return false
		}
		v := vals[*idx]
		*idx++
		if u.Info()&types.IsBoolean != 0 {
			*out = append(*out, fmt.Sprintf("%s = %v", expr, v.Sign() != 0))
			return true
		}
		bits, signed, ok := intInfo(t)
		if !ok {
			return false
		}
		if bits == 0 {
			bits = 64
		}
		lo, hi := big.NewInt(0), new(big.Int).Lsh(big.NewInt(1), uint(bits))
		if signed {
			lo = new(big.Int).Neg(new(big.Int).Lsh(big.NewInt(1), uint(bits-1)))
			hi = new(big.Int).Lsh(big.NewInt(1), uint(bits-1))
		}
		if v.Cmp(lo) < 0 || v.Cmp(hi) >= 0 {
			rp.why = "model value out of the type's range"
			return false
		}
		*out = append(*out, fmt.Sprintf("%s = %s(%s)", expr, rp.typeStr(t), v.String()))
		return true
	case *types.Array:
		for i := 0; i < int(u.Len()); i++ {
			if !rp.setCells(u.Elem(), fmt.Sprintf("%s[%d]", expr, i), vals, idx, out) {
				return false
			}
		}
		return true
	case *types.Struct:
		for i := 0; i < u.NumFields(); i++ {
			if !rp.setCells(u.Field(i).Type(), expr+"."+u.Field(i).Name(), vals, idx, out) {
				return false
			}
		}
		return true
	}
	return false
}

// printCells emits fmt statements printing the leaf cells of expr.
func (rp *replayer) printCells(t types.Type, expr string, out *[]string) {
	switch u := t.Underlying().(type) {
	case *types.Basic:
		if u.Info()&types.IsBoolean != 0 {
			*out = append(*out, fmt.Sprintf("if %s { govcOut = append(govcOut, \"1\") } else { govcOut = append(govcOut, \"0\") }", expr))
			return
		}
		_, signed, _ := intInfo(t)
		if signed {
			*out = append(*out, fmt.Sprintf("govcOut = append(govcOut, fmt.Sprint(int64(%s)))", expr))
		} else {
			*out = append(*out, fmt.Sprintf("govcOut = append(govcOut, fmt.Sprint(uint64(%s)))", expr))
		}
	case *types.Array:
		for i := 0; i < int(u.Len()); i++ {
			rp.printCells(u.Elem(), fmt.Sprintf("%s[%d]", expr, i), out)
		}
	case *types.Struct:
		for i := 0; i < u.NumFields(); i++ {
			rp.printCells(u.Field(i).Type(), expr+"."+u.Field(i).Name(), out)
		}
	}
}

// testSource builds the in-package test calling the function on the model's inputs.
func (rp *replayer) testSource() (string, bool) {
	g := rp.g
	fn := g.fn
	var body []string
	var args []string
	ptrVar := map[string]string{} // "obj|off" -> variable (aliased pointer arguments share the object)
	sliceIdx := 0
	for i, p := range rp.params {
		pv := rp.paramVals(i)
		vn := fmt.Sprintf("a%d", i)
		switch p.kind {
		case "scalar", "bool", "agg":
			body = append(body, fmt.Sprintf("var %s %s", vn, rp.typeStr(p.t)))
			idx := 0
			if !rp.setCells(p.t, vn, pv, &idx, &body) {
				if rp.why == "" {
					rp.why = "cannot build " + p.name
				}
				return "", false
			}
			args = append(args, vn)
		case "ptr":
			if pv[0].Sign() == 0 {
				args = append(args, "nil")
				continue
			}
			key := pv[0].String() + "|" + pv[1].String()
			if prev, ok := ptrVar[key]; ok {
				if !types.Identical(rp.params[i].elem, rp.paramByVar(prev).elem) {
					rp.why = "aliased pointers of different types"
					return "", false
				}
				args = append(args, prev)
				continue
			}
			for k := range ptrVar {
				if strings.HasPrefix(k, pv[0].String()+"|") {
					rp.why = "model overlaps two pointer arguments at different offsets of one object"
					return "", false
				}
			}
			body = append(body, fmt.Sprintf("%s := new(%s)", vn, rp.typeStr(p.elem)))
			idx := 2
			if !rp.setCells(p.elem, "(*"+vn+")", pv, &idx, &body) {
				if rp.why == "" {
					rp.why = "cannot build *" + p.name
				}
				return "", false
			}
			ptrVar[key] = vn
			args = append(args, vn)
		case "slice":
			ln := int(pv[2].Int64())
			if pv[0].Sign() == 0 {
				args = append(args, "nil")
				continue
			}
			if ln < 0 || ln > replayMaxSliceLen {
				rp.why = fmt.Sprintf("slice %s of length %d in the model", p.name, ln)
				return "", false
			}
			cp := ln
			if c := pv[3]; c.IsInt64() && c.Int64() >= int64(ln) && c.Int64() <= 4*replayMaxSliceLen {
				cp = int(c.Int64())
			}
			body = append(body, fmt.Sprintf("%s := make([]%s, %d, %d)", vn, rp.typeStr(p.elem), ln, cp))
			n := ln * p.cells
			if sliceIdx+n > len(rp.sliceVals) {
				rp.why = "slice contents missing from the model"
				return "", false
			}
			vals := rp.sliceVals[sliceIdx : sliceIdx+n]
			sliceIdx += n
			idx := 0
			for e := 0; e < ln; e++ {
				if !rp.setCells(p.elem, fmt.Sprintf("%s[%d]", vn, e), vals, &idx, &body) {
					if rp.why == "" {
						rp.why = "cannot build elements of " + p.name
					}
					return "", false
				}
			}
			args = append(args, vn)
		}
	}
	// the call
	call := ""
	sig := fn.Signature
	if sig.Recv() != nil {
		if len(args) == 0 {
			rp.why = "method without receiver argument"
			return "", false
		}
		recv := args[0]
		if recv == "nil" {
			rp.why = "nil receiver in the model"
			return "", false
		}
		call = fmt.Sprintf("%s.%s(%s)", recv, fn.Name(), strings.Join(args[1:], ", "))
	} else {
		call = fmt.Sprintf("%s(%s)", fn.Name(), strings.Join(args, ", "))
	}
	nres := sig.Results().Len()
	var resNames []string
	for i := 0; i < nres; i++ {
		resNames = append(resNames, fmt.Sprintf("r%d", i))
	}
	if nres > 0 {
		body = append(body, strings.Join(resNames, ", ")+" := "+call)
	} else {
		body = append(body, call)
	}
	// outputs: pointees of pointer parameters, elements of slice parameters, then results
	var prints []string
	for i, p := range rp.params {
		vn := fmt.Sprintf("a%d", i)
		if i < len(args) && args[i] != vn {
			continue // nil or aliased: printed once through the first variable
		}
		switch p.kind {
		case "ptr":
			rp.printCells(p.elem, "(*"+vn+")", &prints)
		case "slice":
			pv := rp.paramVals(i)
			for e := 0; e < int(pv[2].Int64()); e++ {
				rp.printCells(p.elem, fmt.Sprintf("%s[%d]", vn, e), &prints)
			}
		}
	}
	for i := 0; i < nres; i++ {
		rt := sig.Results().At(i).Type()
		rn := resNames[i]
		switch u := rt.Underlying().(type) {
		case *types.Basic, *types.Array, *types.Struct:
			if flatInts(g.lay, rt) || isBoolT(rt) {
				rp.printCells(rt, rn, &prints)
			} else {
				prints = append(prints, "_ = "+rn)
			}
		case *types.Pointer:
			prints = append(prints, fmt.Sprintf("if %s == nil { govcOut = append(govcOut, \"0\") } else { govcOut = append(govcOut, \"1\") }", rn))
			if flatInts(g.lay, u.Elem()) {
				var sub []string
				rp.printCells(u.Elem(), "(*"+rn+")", &sub)
				zero := make([]string, len(sub))
				for k := range zero {
					zero[k] = "govcOut = append(govcOut, \"x\")"
				}
				prints = append(prints, "if "+rn+" != nil {\n"+strings.Join(sub, "\n")+"\n} else {\n"+strings.Join(zero, "\n")+"\n}")
			}
		case *types.Interface:
			prints = append(prints, fmt.Sprintf("if %s == nil { govcOut = append(govcOut, \"0\") } else { govcOut = append(govcOut, \"1\") }", rn))
		default:
			prints = append(prints, "_ = "+rn)
		}
	}
	var b strings.Builder
	fmt.Fprintf(&b, "package %s\n\nimport (\n\t\"fmt\"\n\t\"strings\"\n\t\"testing\"\n", fn.Pkg.Pkg.Name())
	var imps []string
	for p := range rp.imports {
		imps = append(imps, p)
	}
	sort.Strings(imps)
	for _, p := range imps {
		fmt.Fprintf(&b, "\t%s %q\n", rp.imports[p], p)
	}
	b.WriteString(")\n\n// generated by govc: replay of a solver counterexample against the real function\nfunc TestGovcReplay(t *testing.T) {\n")
	b.WriteString("\tvar govcOut []string\n\tdefer func() {\n\t\tif r := recover(); r != nil {\n\t\t\tfmt.Printf(\"GOVC-PANIC %v\\n\", r)\n\t\t}\n\t}()\n")
	for _, l := range body {
		b.WriteString("\t" + strings.ReplaceAll(l, "\n", "\n\t") + "\n")
	}
	for _, l := range prints {
		b.WriteString("\t" + strings.ReplaceAll(l, "\n", "\n\t") + "\n")
	}
	b.WriteString("\tfmt.Printf(\"GOVC-OUT %s\\n\", strings.Join(govcOut, \" \"))\n}\n")
	return b.String(), true
}

func (rp *replayer) paramByVar(vn string) rparam {
	var i int
	fmt.Sscanf(vn, "a%d", &i)
	return rp.params[i]
}

// outputTerms: SMT terms of the observable outputs at the return the obligation belongs to, in the order testSource
// prints them ("" = not pinned).
func (rp *replayer) outputTerms() []string {
	g := rp.g
	m := regexp.MustCompile(`@ret(\d+)`).FindStringSubmatch(rp.o.Name)
	if m == nil {
		return nil
	}
	var ri int
	fmt.Sscan(m[1], &ri)
	rs, ok := g.retStates[ri]
	if !ok {
		return nil
	}
	var ts []string
	seen := map[string]bool{}
	for i, p := range rp.params {
		pv := rp.paramVals(i)
		switch p.kind {
		case "ptr":
			if pv[0].Sign() == 0 {
				continue
			}
			key := pv[0].String() + "|" + pv[1].String()
			if seen[key] {
				continue
			}
			seen[key] = true
			for k := 0; k < p.cells; k++ {
				ts = append(ts, fmt.Sprintf("(select (select %s %s) (+ %s %d))", rs.heapInt, p.v.S[0], p.v.S[1], k))
			}
		case "slice":
			if pv[0].Sign() == 0 {
				continue
			}
			for k := 0; k < int(pv[2].Int64())*p.cells; k++ {
				ts = append(ts, fmt.Sprintf("(select (select %s %s) (+ %s %d))", rs.heapInt, p.v.S[0], p.v.S[1], k))
			}
		}
	}
	sig := g.fn.Signature
	for i := 0; i < sig.Results().Len(); i++ {
		if i >= len(rs.results) {
			return nil
		}
		rt := sig.Results().At(i).Type()
		rv := rs.results[i]
		switch u := rt.Underlying().(type) {
		case *types.Basic, *types.Array, *types.Struct:
			if isBoolT(rt) {
				if rv.Sort == "Bool" {
					ts = append(ts, "bool:"+rv.S[0])
				} else {
					ts = append(ts, rv.S[0])
				}
			} else if flatInts(g.lay, rt) {
				ts = append(ts, rv.S...)
			}
		case *types.Pointer:
			ts = append(ts, "nil:"+rv.S[0])
			if flatInts(g.lay, u.Elem()) {
				for k := 0; k < g.lay.Size(u.Elem()); k++ {
					ts = append(ts, fmt.Sprintf("(select (select %s %s) (+ %s %d))", rs.heapInt, rv.S[0], rv.S[1], k))
				}
			}
		case *types.Interface:
			ts = append(ts, "nil:"+rv.S[0])
		}
	}
	return ts
}

func (rp *replayer) describeInputs() map[string]interface{} {
	out := map[string]interface{}{}
	for i, p := range rp.params {
		pv := rp.paramVals(i)
		var s []string
		for _, v := range pv {
			if v != nil {
				s = append(s, v.String())
			}
		}
		label := p.kind
		if p.kind == "ptr" {
			label = "pointer (object, offset, pointee cells)"
		} else if p.kind == "slice" {
			label = "slice (object, offset, len, cap)"
		}
		out[p.name] = map[string]interface{}{"kind": label, "model": s}
	}
	if len(rp.sliceVals) > 0 {
		var s []string
		for _, v := range rp.sliceVals {
			s = append(s, v.String())
		}
		out["$slice_contents"] = s
	}
	return out
}

func (rp *replayer) run(repo, src string) (string, string) {
	home, _ := os.UserHomeDir()
	tmp, err := os.MkdirTemp(home, ".govc-replay-")
	if err != nil {
		return "", err.Error()
	}
	defer os.RemoveAll(tmp)
	fn := rp.g.fn
	var dir string
	if f := rp.g.eng.fset.File(fn.Pos()); f != nil {
		dir = filepath.Dir(f.Name())
	} else {
		return "", "no source position for the function"
	}
	target := filepath.Join(dir, "zz_govc_replay_test.go")
	srcf := filepath.Join(tmp, "replay_test.go")
	os.WriteFile(srcf, []byte(src), 0o644)
	ov, _ := json.Marshal(map[string]interface{}{"Replace": map[string]string{target: srcf}})
	ovf := filepath.Join(tmp, "overlay.json")
	os.WriteFile(ovf, ov, 0o644)
	rel, err := filepath.Rel(repo, dir)
	if err != nil {
		return "", err.Error()
	}
	cmd := exec.Command("go", "test", "-overlay", ovf, "-vet=off", "-v", "-count=1", "-timeout", "60s", "-run", "^TestGovcReplay$", "./"+rel)
	cmd.Dir = repo
	cmd.Env = append(os.Environ(), "GOFLAGS=-mod=mod", "GOPROXY=off", "GOSUMDB=off", "GOTOOLCHAIN=local")
	ob, _ := cmd.CombinedOutput()
	text := string(ob)
	if !strings.Contains(text, "GOVC-OUT") && !strings.Contains(text, "GOVC-PANIC") {
		if len(text) > 800 {
			text = text[len(text)-800:]
		}
		return "", "go test produced no replay output: " + text
	}
	var keep []string
	for _, l := range strings.Split(text, "\n") {
		if strings.HasPrefix(l, "GOVC-") {
			keep = append(keep, l)
		}
	}
	return strings.Join(keep, "\n"), ""
}

var _ = ssa.BuilderMode(0)
