package main

// Replay of failed obligations against the real code (filled in per obligation kind).

func replayObligation(r *Report, o *Obligation) map[string]interface{} {
	return map[string]interface{}{"failing_input_found": false, "note": "no replay harness for this obligation kind"}
}
