package main

import (
	"bytes"
	"context"
	"fmt"
	"os"
	"os/exec"
	"path/filepath"
	"regexp"
	"strconv"
	"strings"
	"sync"
	"time"
)

// pow2 is an uninterpreted function pinned by ground facts for 0..256 (cheaper for the solvers than a nested
// ite definition: it stays opaque until an argument is decided) plus positivity.
func pow2Def() string {
	var b strings.Builder
	b.WriteString("(declare-fun pow2 (Int) Int)\n")
	for k := 0; k <= 256; k++ {
		b.WriteString(fmt.Sprintf("(assert (= (pow2 %d) %s))\n", k, pow2s(k)))
	}
	b.WriteString("(assert (forall ((k Int)) (! (>= (pow2 k) 1) :pattern ((pow2 k)))))\n")
	return b.String()
}

const baseStr = "(declare-fun strlen (Int) Int)\n(assert (forall ((s Int)) (! (>= (strlen s) 0) :pattern ((strlen s)))))\n"
const baseBits = "(declare-fun bitand (Int Int) Int)\n(declare-fun bitor (Int Int) Int)\n(declare-fun bitxor (Int Int) Int)\n(declare-fun bitandnot (Int Int) Int)\n"

func (g *Gen) header() string {
	var b strings.Builder
	if g.uses["pow2"] {
		b.WriteString(pow2Def())
	}
	if g.uses["str"] {
		b.WriteString(baseStr)
	}
	if g.uses["bitfns"] {
		b.WriteString(baseBits)
	}
	names := append([]string{}, g.ct.Preludes...)
	for k := range g.uses {
		if strings.HasPrefix(k, "prelude:") {
			names = append(names, strings.TrimPrefix(k, "prelude:"))
		}
	}
	// deterministic order
	sortStrings(names)
	text := g.eng.prelude.textFor(names)
	// option opaque f g ...: the unit treats these defined prelude functions as uninterpreted (a sound weakening that
	// keeps large definitions, e.g. modular reductions, out of obligations that only need them as names)
	for _, fn := range strings.Fields(g.ct.Options["opaque"]) {
		if g.replayMode {
			break // replay evaluates concrete inputs: definitions stay transparent
		}
		sig, ok := g.eng.prelude.sigs[fn]
		if !ok {
			continue
		}
		lines := strings.Split(text, "\n")
		for i, l := range lines {
			if strings.HasPrefix(l, "(define-fun "+fn+" ") {
				lines[i] = fmt.Sprintf("(declare-fun %s (%s) %s)", fn, strings.Join(sig.args, " "), sig.ret)
			}
		}
		text = strings.Join(lines, "\n")
	}
	b.WriteString(text)
	b.WriteString("\n")
	return b.String()
}

func sortStrings(s []string) {
	for i := 1; i < len(s); i++ {
		for j := i; j > 0 && s[j] < s[j-1]; j-- {
			s[j], s[j-1] = s[j-1], s[j]
		}
	}
}

func (g *Gen) isRing() bool {
	for _, p := range g.ct.Preludes {
		if p == "fieldring" {
			return true
		}
	}
	return false
}

func (g *Gen) smtFor(o *Obligation) string { return g.smtForOpt(o, false) }

// smtForOpt: full = keep the lines of every block (no control-flow slicing). Slicing usually helps, but on a few
// obligations the solvers only succeed with the larger context (search-order luck), so stage 2 races both texts.
func (g *Gen) smtForOpt(o *Obligation, full bool) string {
	var b strings.Builder
	b.WriteString("; obligation " + o.Name + "\n; " + o.Desc + "\n; at " + o.Pos + "\n")
	b.WriteString(g.header())
	g.tagMu.Lock()
	if g.tagAnc == nil {
		g.computeTagAnc()
	}
	g.tagMu.Unlock()
	noSlice := os.Getenv("GOVC_NOSLICE") != "" || full
	for i, l := range g.lines[:o.PrefixLen] {
		if !noSlice && i < len(g.lineTag) && !g.isAncTag(g.lineTag[i], o.Tag) {
			continue // produced by a block that cannot reach the obligation's block
		}
		if len(o.Using) > 0 && !(strings.HasPrefix(l, "(declare-") || g.boolDef[i] || (o.SinceLine >= 0 && i >= o.SinceLine)) {
			continue
		}
		b.WriteString(l)
		b.WriteByte('\n')
	}
	for _, f := range o.UsingFacts {
		b.WriteString("(assert " + f + ")\n")
	}
	for _, l := range o.Extra {
		b.WriteString(l)
		b.WriteByte('\n')
	}
	if o.MustSat {
		b.WriteString("(check-sat)\n")
		return b.String()
	}
	b.WriteString("(assert (not " + o.Goal + "))\n(check-sat)\n(get-model)\n")
	return b.String()
}

// Proof hints (/verif/hints/<prop>.json, written only by `govc check -writehints`, never by a normal run): for obligations
// whose proof depends on the solver's case-split order, the solver and random seed that discharged them. A hint only
// chooses which attempt is made first; the obligation is still decided by that solver on the query generated from the
// current source, and a failed hint falls through to the full race.
type proofHint struct {
	Solver string  `json:"solver"`
	Seed   int     `json:"seed"`
	Secs   float64 `json:"secs"`
	Full   bool    `json:"full,omitempty"` // discharged on the unsliced text
}

var (
	hints      = map[string]proofHint{}
	hintsMu    sync.Mutex
	newHints   = map[string]proofHint{}
	writeHints bool
)

func seededSpec(base string, seed int) solverSpec {
	return solverSpec{fmt.Sprintf("%s(seed %d)", base, seed), func(f string, t int) []string {
		return []string{base, fmt.Sprintf("-T:%d", t), fmt.Sprintf("smt.random_seed=%d", seed), fmt.Sprintf("sat.random_seed=%d", seed), "-smt2", f}
	}}
}

type solverSpec struct {
	name string
	args func(file string, timeout int) []string
}

var solvers = []solverSpec{
	{"z3-new", func(f string, t int) []string { return []string{"z3-new", fmt.Sprintf("-T:%d", t), "-smt2", f} }},
	{"z3", func(f string, t int) []string { return []string{"z3", fmt.Sprintf("-T:%d", t), "-smt2", f} }},
	{"cvc5", func(f string, t int) []string {
		return []string{"cvc5", "-q", "--produce-models", fmt.Sprintf("--tlimit=%d", t*1000), "--lang=smt2", f}
	}},
}

type solveResult struct {
	verdict string // unsat, sat, unknown, timeout, error
	out     string
	secs    float64
	solver  string
}

func runSolver(parent context.Context, sp solverSpec, file string, timeout int) solveResult {
	args := sp.args(file, timeout)
	ctx, cancel := context.WithTimeout(parent, time.Duration(timeout+2)*time.Second)
	defer cancel()
	cmd := exec.CommandContext(ctx, args[0], args[1:]...)
	var out bytes.Buffer
	cmd.Stdout = &out
	cmd.Stderr = &out
	start := time.Now()
	_ = cmd.Run()
	secs := time.Since(start).Seconds()
	text := out.String()
	first := strings.TrimSpace(strings.SplitN(text, "\n", 2)[0])
	for _, ln := range strings.Split(text, "\n") {
		ln = strings.TrimSpace(ln)
		if ln == "sat" || ln == "unsat" || ln == "unknown" {
			first = ln
			break
		}
	}
	v := "error"
	switch {
	case first == "unsat":
		v = "unsat"
	case first == "sat":
		v = "sat"
	case first == "unknown":
		v = "unknown"
	case parent.Err() != nil:
		v = "cancelled"
	case strings.Contains(first, "timeout") || ctx.Err() != nil || strings.Contains(text, "interrupted by timeout"):
		v = "timeout"
	}
	if len(text) > 6000 {
		text = text[:6000] + "\n...[truncated]"
	}
	return solveResult{v, text, secs, sp.name}
}

type solverStats struct {
	mu       sync.Mutex
	bySolver map[string]int
	secs     map[string]float64
}

// discharge decides one obligation by racing the solvers.
func discharge(g *Gen, o *Obligation, workDir string, timeout int, st *solverStats) {
	file := filepath.Join(workDir, sanitize(strings.ReplaceAll(o.Name, "#", "__"))+".smt2")
	if err := os.WriteFile(file, []byte(g.smtFor(o)), 0o644); err != nil {
		o.Status = "error"
		o.Output = err.Error()
		return
	}
	o.SMTFile = file
	record := func(r solveResult) {
		st.mu.Lock()
		st.secs[r.solver] += r.secs
		st.mu.Unlock()
	}
	want, bad := "unsat", "sat"
	if o.MustSat {
		want, bad = "sat", "unsat"
	}
	finish := func(r solveResult) bool {
		record(r)
		o.Time += r.secs
		if r.verdict == want {
			o.Status = "proved"
			o.Solver = r.solver
			if writeHints && !o.MustSat {
				if m := regexp.MustCompile(`^(z3|z3-new)\(seed (\d+)\)$`).FindStringSubmatch(r.solver); m != nil {
					sd, _ := strconv.Atoi(m[2])
					hintsMu.Lock()
					newHints[o.Name] = proofHint{Solver: m[1], Seed: sd, Secs: round3(r.secs)}
					hintsMu.Unlock()
				} else if strings.HasSuffix(r.solver, "(full context)") {
					hintsMu.Lock()
					newHints[o.Name] = proofHint{Solver: strings.TrimSuffix(r.solver, "(full context)"), Secs: round3(r.secs), Full: true}
					hintsMu.Unlock()
				} else if o.Time > 4 && (r.solver == "z3" || r.solver == "z3-new" || r.solver == "cvc5") {
					hintsMu.Lock()
					newHints[o.Name] = proofHint{Solver: r.solver, Secs: round3(r.secs)}
					hintsMu.Unlock()
				}
			}
			st.mu.Lock()
			st.bySolver[r.solver]++
			st.mu.Unlock()
			return true
		}
		if r.verdict == bad {
			o.Status = "failed"
			o.Solver = r.solver
			o.Model = r.out
			return true
		}
		o.Output += fmt.Sprintf("[%s: %s after %.1fs] ", r.solver, r.verdict, r.secs)
		if r.verdict == "error" {
			o.Output += r.out
		}
		return false
	}
	// stage 1: z3-new and cvc5 with a short budget; stage 2: all solvers with the full budget
	race := func(sps []solverSpec, t int) bool {
		ch := make(chan solveResult, len(sps))
		ctx, cancel := context.WithCancel(context.Background())
		defer cancel()
		for _, sp := range sps {
			sp := sp
			go func() { ch <- runSolver(ctx, sp, file, t) }()
		}
		done := false
		for range sps {
			r := <-ch
			if done || r.verdict == "cancelled" {
				if r.verdict != "cancelled" {
					record(r)
				}
				continue
			}
			if finish(r) {
				done = true
				cancel()
			}
		}
		return done
	}
	t1 := timeout
	if t1 > 4 {
		t1 = 4
	}
	if o.MustSat {
		// vacuity covers: a quick satisfiability probe; "unknown" (quantified axioms) is not a failure
		if timeout > 3 {
			timeout = 3
		}
		t1 = timeout
	}
	stage1 := []solverSpec{solvers[0], solvers[2], solvers[1]}
	if g.isRing() && !o.MustSat {
		// polynomial identities over the integers: normalise to sums of monomials first (z3 tactic pipeline)
		ringFile := strings.TrimSuffix(file, ".smt2") + ".ring.smt2"
		txt := strings.Replace(g.smtFor(o), "(check-sat)\n(get-model)", "(check-sat-using (then simplify propagate-values solve-eqs (! simplify :som true) nlsat))", 1)
		if os.WriteFile(ringFile, []byte(txt), 0o644) == nil {
			defer os.Remove(ringFile)
			stage1 = append(stage1, solverSpec{"z3-new(ring tactic)", func(f string, t int) []string {
				return []string{"z3-new", fmt.Sprintf("-T:%d", t), "-smt2", ringFile}
			}})
		}
	}
	seededSpecs := func() []solverSpec {
		var out []solverSpec
		seeds := []int{7, 23, 101, 1009, 31337, 424242}
		if writeHints {
			seeds = append(seeds, 2, 3, 8, 9, 12, 17, 29, 53, 77, 4099)
		}
		for _, seed := range seeds {
			out = append(out, seededSpec("z3", seed))
		}
		return out
	}
	// stage 0: the recorded hint, if any
	hintsMu.Lock()
	h, hasHint := hints[o.Name]
	hintsMu.Unlock()
	if hasHint && !o.MustSat {
		sp := solverSpec{}
		for _, c := range solvers {
			if c.name == h.Solver {
				sp = c
			}
		}
		if h.Seed != 0 {
			sp = seededSpec(h.Solver, h.Seed)
		}
		hfile := file
		if h.Full {
			hfile = strings.TrimSuffix(file, ".smt2") + ".hintfull.smt2"
			if os.WriteFile(hfile, []byte(g.smtForOpt(o, true)), 0o644) != nil {
				hfile = file
			} else {
				defer os.Remove(hfile)
			}
		}
		if sp.args != nil {
			t0 := int(h.Secs*20) + 10
			if t0 > timeout {
				t0 = timeout
			}
			if finish(runSolver(context.Background(), sp, hfile, t0)) {
				return
			}
			o.Output = ""
		}
	}
	if g.ct.Options["seeds"] != "" && !o.MustSat {
		// units whose obligations hinge on the order of heap-aliasing case splits: race several seeds from the start
		stage1 = append(stage1, seededSpecs()...)
	}
	done := race(stage1, t1)
	if !done && timeout > t1 {
		o.Output = ""
		stage2 := append([]solverSpec{}, solvers...)
		if !o.MustSat && o.SMTFile != "" {
			fullFile := strings.TrimSuffix(file, ".smt2") + ".full.smt2"
			if os.WriteFile(fullFile, []byte(g.smtForOpt(o, true)), 0o644) == nil {
				defer os.Remove(fullFile)
				for _, sp := range []solverSpec{solvers[0], solvers[1]} {
					sp := sp
					stage2 = append(stage2, solverSpec{sp.name + "(full context)", func(f string, t int) []string { return sp.args(fullFile, t) }})
				}
			}
		}
		done = race(stage2, timeout)
	}
	if !done && !o.MustSat && timeout > t1 {
		// stage 3: the same query under other case-split orders (random seeds): proofs that depend on the order in which
		// heap-aliasing cases are explored succeed under some seeds and time out under others
		seeded := seededSpecs()
		done = race(seeded, timeout)
	}
	if !done {
		o.Status = "unknown"
	}
}

// runLemmas checks the standalone spec-level lemmas of a property: /verif/spec/lemmas/<prop>_*.smt2, each a
// closed SMT problem whose expected answer is unsat (statements about spec functions / polynomial identities, not code).
func runLemmas(verif, prop string, timeout int, st *solverStats) []*Obligation {
	all, _ := filepath.Glob(filepath.Join(verif, "spec", "lemmas", "*.smt2"))
	var files []string
	for _, f := range all {
		// a lemma belongs to the property of its file name prefix and to every property on a "; props:" line
		mine := strings.HasPrefix(filepath.Base(f), prop+"_")
		if b, err := os.ReadFile(f); err == nil && !mine {
			for _, line := range strings.Split(string(b), "\n") {
				if strings.HasPrefix(line, "; props:") {
					for _, w := range strings.Fields(strings.TrimPrefix(line, "; props:")) {
						mine = mine || w == prop
					}
				}
			}
		}
		if mine {
			files = append(files, f)
		}
	}
	var out []*Obligation
	for _, f := range files {
		name := strings.TrimSuffix(filepath.Base(f), ".smt2")
		o := &Obligation{Name: "lemma." + name, Kind: "lemma", Unit: "spec/lemmas", Desc: "spec-level lemma " + filepath.Base(f), Props: []string{prop}, Pos: f, SMTFile: f, Status: "unknown"}
		if b, err := os.ReadFile(f); err == nil {
			if i := strings.Index(string(b), "\n"); i > 0 {
				o.Desc = strings.TrimPrefix(string(b)[:i], "; ")
			}
		}
		// "; prelude: a b" lines make the lemma a statement over the same spec vocabulary the contracts use: the named
		// prelude files (with their dependencies) are prepended and the problem is solved from a temporary file
		run := f
		if b, err := os.ReadFile(f); err == nil {
			var names []string
			for _, line := range strings.Split(string(b), "\n") {
				if strings.HasPrefix(line, "; prelude:") {
					names = append(names, strings.Fields(strings.TrimPrefix(line, "; prelude:"))...)
				}
			}
			if len(names) > 0 {
				if tf, err := os.CreateTemp("", "govc-lemma-*.smt2"); err == nil {
					tf.WriteString(LoadPrelude(filepath.Join(verif, "spec")).textFor(names) + "\n" + string(b))
					tf.Close()
					run = tf.Name()
					defer os.Remove(run)
				}
			}
		}
		for _, sp := range []solverSpec{solvers[0], solvers[2], solvers[1]} {
			r := runSolver(context.Background(), sp, run, timeout)
			st.mu.Lock()
			st.secs[r.solver] += r.secs
			st.mu.Unlock()
			o.Time += r.secs
			if r.verdict == "unsat" {
				o.Status, o.Solver = "proved", r.solver
				st.mu.Lock()
				st.bySolver[r.solver]++
				st.mu.Unlock()
				break
			}
			if r.verdict == "sat" {
				o.Status, o.Solver, o.Model = "failed", r.solver, r.out
				break
			}
			o.Output += fmt.Sprintf("[%s: %s] ", r.solver, r.verdict)
		}
		out = append(out, o)
	}
	return out
}
