package main

// Translation of spec expressions to SMT in an environment (variables, heap, old heap).

import (
	"fmt"
	"go/constant"
	"go/token"
	"go/types"
	"math/big"
	"strings"

	"golang.org/x/tools/go/ssa"
)

type Env struct {
	g          *Gen
	vars       map[string]*Val
	heap, old  map[string]string
	nextobj    string
	oldNextobj string
	ghost      map[string]string
	oldGhost   map[string]string
	resolve    func(string) *Val
	pkg        *ssa.Package // package whose globals/consts are visible
	bound      map[string]*Val
	loopNext   string    // allocation counter at entry of the loop whose invariant is being evaluated
	side       *[]string // typing facts of cells read by the expression (valid in every well-typed heap)
	goal       bool      // expression is a proof goal (true) or an assumption (false)
}

// specLoad reads from the environment's heap and records the type ranges of the cells read.
func (g *Gen) specLoad(env *Env, t types.Type, obj, off string) *Val {
	if _, _, isInt := intInfo(t); isInt {
		for _, cc := range g.cellConst {
			if cc[0] != obj || cc[1] != off {
				continue
			}
			h := env.heap["Int"]
			if h != g.H0["Int"] {
				// the case split fixes the cell in the entry state: in a later state the value is used only after
				// showing that the cell is unchanged there (once per heap)
				key := h + "|" + obj + "|" + off
				if g.cellConstOK == nil {
					g.cellConstOK = map[string]bool{}
				}
				if !g.cellConstOK[key] {
					g.cellConstOK[key] = true
					g.oblige("constcell", fmt.Sprintf("(= %s %s)", sel2(h, obj, off), cc[2]), token.NoPos,
						"the cell fixed by the contract's case split still holds its value in this state", nil)
				}
			}
			return scalar("Int", cc[2], t)
		}
	}
	v := g.loadFrom(env.heap, t, obj, off)
	if env.side != nil {
		terms := v.S
		if v.Sort == "Bool" {
			return v
		}
		if r := g.cellRanges(t, terms); r != "true" {
			*env.side = append(*env.side, r)
		}
		if _, isSlice := t.Underlying().(*types.Slice); isSlice && g.view.opaqueSort(t) == "" && len(terms) == 4 {
			*env.side = append(*env.side, fmt.Sprintf("(and (<= %s %s) (< %s 9223372036854775808) (or (>= %s 1) (= %s 0)))", terms[2], terms[3], terms[3], terms[0], terms[3]))
		}
		// references stored in a heap denote objects allocated when that heap was current
		cs := g.lay.Cells(t)
		if len(cs) == len(terms) && env.nextobj != "" {
			for i, c := range cs {
				if c.Role == "obj" || c.Role == "ref" {
					*env.side = append(*env.side, fmt.Sprintf("(< %s %s)", terms[i], env.nextobj))
				}
			}
		}
	}
	return v
}

func (e *Env) clone() *Env {
	c := *e
	c.vars = map[string]*Val{}
	for k, v := range e.vars {
		c.vars[k] = v
	}
	return &c
}

func (g *Gen) entryEnv() *Env {
	env := &Env{g: g, vars: map[string]*Val{}, heap: g.H0, old: g.H0, nextobj: g.nextobj0, oldNextobj: g.nextobj0,
		ghost: g.eng.initialGhost(g), oldGhost: g.eng.initialGhost(g), pkg: g.fn.Pkg}
	if env.pkg == nil && g.fn.Parent() != nil {
		env.pkg = g.fn.Parent().Pkg
	}
	for k, v := range g.params {
		env.vars[k] = v
	}
	for k, v := range g.lets {
		env.vars[k] = v
	}
	return env
}

func (g *Gen) loopEnv(li *loopInfo, phis map[string]*Val) *Env {
	env := g.entryEnv()
	env.heap = g.heap
	env.nextobj = g.nextobj
	env.ghost = g.ghost
	for k, v := range phis {
		env.vars[k] = v
	}
	env.resolve = func(name string) *Val { return g.resolveAt(li.header, name) }
	env.loopNext = li.preNext
	g.dropAddressTakenParams(env)
	return env
}

// resolveAt finds the value of the source variable `name` at the head of block h.
func (g *Gen) resolveAt(h *ssa.BasicBlock, name string) *Val {
	if len(h.Instrs) > 0 {
		if v := g.allocNamed(h, h.Instrs[0], name); v != nil {
			return v
		}
	}
	var best ssa.Value
	var bestAddr bool
	bestKey := -1
	consider := func(ref *ssa.DebugRef, key int) {
		id := ref.Object()
		if id == nil || id.Name() != name {
			return
		}
		if _, isVar := id.(*types.Var); !isVar {
			return
		}
		v := ref.X
		// value must be available at h
		if ins, ok := v.(ssa.Instruction); ok {
			if !(ins.Block().Dominates(h) && ins.Block() != h) {
				return
			}
		}
		if _, known := g.vals[v]; !known {
			switch v.(type) {
			case *ssa.Const, *ssa.Global, *ssa.Function, *ssa.Parameter, *ssa.FreeVar:
			default:
				return
			}
		}
		if key > bestKey {
			best, bestAddr, bestKey = v, ref.IsAddr, key
		}
	}
	// refs in dominating blocks, later ones win; then refs inside the loop (loop-invariant values)
	for _, b := range g.fn.Blocks {
		dom := b.Dominates(h) && b != h
		for i, ins := range b.Instrs {
			// a phi of the variable in a dominating block (the header of an enclosing loop) is its current value there:
			// without this, a variable initialised by a constant and updated in an enclosing loop resolved to the constant
			if phi, ok := ins.(*ssa.Phi); ok && dom && phi.Comment == name {
				if _, known := g.vals[phi]; known {
					if key := 1000000 + b.Index*10000 + i; key > bestKey {
						best, bestAddr, bestKey = phi, false, key
					}
				}
			}
			if ref, ok := ins.(*ssa.DebugRef); ok {
				if dom {
					consider(ref, 1000000+b.Index*10000+i)
				} else {
					consider(ref, 1)
				}
			}
		}
	}
	if best == nil {
		return nil
	}
	v := g.val(best)
	if bestAddr {
		elem := best.Type().Underlying().(*types.Pointer).Elem()
		return g.loadFrom(g.heap, elem, v.S[0], v.S[1])
	}
	return v
}

func (g *Gen) specErr(msg string, e *Expr) {
	g.errs = append(g.errs, fmt.Sprintf("spec: %s in %q", msg, e.String()))
}

func (g *Gen) specBool(env *Env, e *Expr) string {
	top := env.side == nil
	if top {
		var side []string
		env.side = &side
		defer func() {
			env.side = nil
			seen := map[string]bool{}
			for _, s := range side {
				if !seen[s] {
					seen[s] = true
					g.assumeRange(s, false)
				}
			}
		}()
	}
	v := g.specVal(env, e)
	if v == nil {
		return "true"
	}
	if v.Sort != "Bool" {
		g.specErr("expected a boolean", e)
		return "true"
	}
	return v.S[0]
}

func sortOfSpecName(s string) string {
	switch s {
	case "int":
		return "Int"
	case "bool":
		return "Bool"
	}
	return s
}

var fieldOps = map[string]map[string]string{
	"Fp": {"+": "fp_add", "-": "fp_sub", "*": "fp_mul", "neg": "fp_neg"},
	"Fr": {"+": "fr_add", "-": "fr_sub", "*": "fr_mul", "neg": "fr_neg"},
	"G":  {"+": "g_add", "-": "g_sub", "neg": "g_neg"},
}

// addrOf evaluates e as an lvalue: (type, obj, off). ok=false if e is not addressable.
func (g *Gen) addrOf(env *Env, e *Expr) (types.Type, string, string, bool) {
	switch e.Op {
	case "deref":
		p := g.specVal(env, e.Args[0])
		if p == nil {
			return nil, "", "", false
		}
		if pt, ok := p.T.Underlying().(*types.Pointer); ok {
			return pt.Elem(), p.S[0], p.S[1], true
		}
	case "index":
		base := g.specVal(env, e.Args[0])
		idx := g.specVal(env, e.Args[1])
		if base == nil || idx == nil || base.T == nil {
			return nil, "", "", false
		}
		switch u := base.T.Underlying().(type) {
		case *types.Pointer:
			if arr, ok := u.Elem().Underlying().(*types.Array); ok && g.view.opaqueSort(u.Elem()) == "" {
				return arr.Elem(), base.S[0], g.mulAdd(base.S[1], idx.S[0], g.lay.Size(arr.Elem())), true
			}
		case *types.Slice:
			if base.Sort == "Slice" {
				return u.Elem(), base.S[0], g.mulAdd(base.S[1], idx.S[0], g.lay.Size(u.Elem())), true
			}
		}
		// indexing into an addressable array lvalue
		if t, o, off, ok := g.addrOf(env, e.Args[0]); ok {
			if arr, ok := t.Underlying().(*types.Array); ok && g.view.opaqueSort(t) == "" {
				return arr.Elem(), o, g.mulAdd(off, idx.S[0], g.lay.Size(arr.Elem())), true
			}
		}
	case "sel":
		// p.f with p pointer to struct, or lvalue.f
		if t, o, off, ok := g.addrOf(env, e.Args[0]); ok {
			if st, ok := t.Underlying().(*types.Struct); ok && g.view.opaqueSort(t) == "" {
				for i := 0; i < st.NumFields(); i++ {
					if st.Field(i).Name() == e.Tok {
						return st.Field(i).Type(), o, addOff(off, g.lay.FieldOff(st, i)), true
					}
				}
			}
			if pt, ok := t.Underlying().(*types.Pointer); ok {
				// lvalue holds a pointer: load it, then select
				p := g.specLoad(env, t, o, off)
				return g.fieldOfPtr(pt, p, e.Tok)
			}
		}
		base := g.specVal(env, e.Args[0])
		if base != nil && base.T != nil {
			if pt, ok := base.T.Underlying().(*types.Pointer); ok {
				return g.fieldOfPtr(pt, base, e.Tok)
			}
		}
	case "id":
		// package-level variable
		if env.pkg != nil {
			if gl, ok := env.pkg.Members[e.Tok].(*ssa.Global); ok {
				if _, shadow := env.vars[e.Tok]; !shadow {
					return gl.Type().Underlying().(*types.Pointer).Elem(), g.globalObj(gl), "0", true
				}
			}
		}
	}
	return nil, "", "", false
}

func (g *Gen) fieldOfPtr(pt *types.Pointer, p *Val, name string) (types.Type, string, string, bool) {
	st, ok := pt.Elem().Underlying().(*types.Struct)
	if !ok || g.view.opaqueSort(pt.Elem()) != "" {
		return nil, "", "", false
	}
	for i := 0; i < st.NumFields(); i++ {
		if st.Field(i).Name() == name {
			return st.Field(i).Type(), p.S[0], addOff(p.S[1], g.lay.FieldOff(st, i)), true
		}
	}
	return nil, "", "", false
}

func (g *Gen) specVal(env *Env, e *Expr) *Val {
	switch e.Op {
	case "num":
		bi, ok := new(big.Int).SetString(e.Tok, 0)
		if !ok {
			g.specErr("bad number", e)
			return nil
		}
		return scalar("Int", smtInt(bi), nil)
	case "str":
		return scalar("Int", g.eng.stringID(e.Tok), nil)
	case "id":
		return g.specIdent(env, e)
	case "deref", "index", "sel":
		if e.Op == "sel" {
			// ghost fields / pseudo fields
			if v := g.eng.specPseudoField(g, env, e); v != nil {
				return v
			}
		}
		if t, o, off, ok := g.addrOf(env, e); ok {
			return g.specLoad(env, t, o, off)
		}
		return g.specValueSelect(env, e)
	case "addr":
		if t, o, off, ok := g.addrOf(env, e.Args[0]); ok {
			return &Val{T: types.NewPointer(t), Sort: "Ptr", S: []string{o, off}}
		}
		g.specErr("cannot take address", e)
		return nil
	case "slice":
		base := g.specVal(env, e.Args[0])
		if base == nil {
			return nil
		}
		if base.Sort != "Slice" {
			g.specErr("slice expression on non-slice", e)
			return nil
		}
		lo, hi := "0", base.S[2]
		if e.Args[1] != nil {
			lo = g.specVal(env, e.Args[1]).S[0]
		}
		if e.Args[2] != nil {
			hi = g.specVal(env, e.Args[2]).S[0]
		}
		sz := g.lay.Size(base.T.Underlying().(*types.Slice).Elem())
		return &Val{T: base.T, Sort: "Slice", S: []string{base.S[0], g.mulAdd(base.S[1], lo, sz), simplSub(hi, lo), simplSub(base.S[3], lo)}}
	case "un":
		a := g.specVal(env, e.Args[0])
		if a == nil {
			return nil
		}
		switch e.Tok {
		case "!":
			return scalar("Bool", not(a.S[0]), nil)
		case "-":
			if ops, ok := fieldOps[a.Sort]; ok {
				return scalar(a.Sort, fmt.Sprintf("(%s %s)", ops["neg"], a.S[0]), nil)
			}
			return scalar("Int", fmt.Sprintf("(- %s)", a.S[0]), nil)
		}
	case "cond":
		c := g.specBool(env, e.Args[0])
		a, b := g.specVal(env, e.Args[1]), g.specVal(env, e.Args[2])
		if a == nil || b == nil || len(a.S) != len(b.S) {
			g.specErr("conditional branches differ", e)
			return nil
		}
		out := *a
		out.S = nil
		for i := range a.S {
			out.S = append(out.S, fmt.Sprintf("(ite %s %s %s)", c, a.S[i], b.S[i]))
		}
		return &out
	case "forall", "exists":
		sub := env.clone()
		var decls []string
		for _, bv := range e.Vars {
			srt := sortOfSpecName(bv.Sort)
			name := g.fresh("q_" + bv.Name)
			sub.vars[bv.Name] = scalar(srt, name, nil)
			decls = append(decls, fmt.Sprintf("(%s %s)", name, srt))
		}
		var bside []string
		sub.side = &bside
		var body string
		if be := e.Args[0]; e.Op == "forall" && be.Op == "bin" && be.Tok == "==>" {
			// guarded body: the typing facts of the cells read are asserted (resp. assumed) under the guard only
			guard := g.specBool(sub, be.Args[0])
			cons := g.specBool(sub, be.Args[1])
			if env.goal {
				body = fmt.Sprintf("(=> %s %s)", and(append([]string{guard}, bside...)...), cons)
			} else {
				body = fmt.Sprintf("(=> %s %s)", guard, and(append(bside, cons)...))
			}
		} else {
			body = g.specBool(sub, e.Args[0])
			if len(bside) > 0 {
				if env.goal {
					body = fmt.Sprintf("(=> %s %s)", and(bside...), body)
				} else {
					body = and(append(bside, body)...)
				}
			}
		}
		if len(e.Pats) > 0 {
			var pts []string
			saved := sub.side
			var dummy []string
			sub.side = &dummy
			for _, pe := range e.Pats {
				if pv := g.specVal(sub, pe); pv != nil && len(pv.S) > 0 {
					pts = append(pts, pv.S[0])
				}
			}
			sub.side = saved
			if len(pts) > 0 {
				body = fmt.Sprintf("(! %s :pattern (%s))", body, strings.Join(pts, " "))
			}
		}
		return scalar("Bool", fmt.Sprintf("(%s (%s) %s)", e.Op, strings.Join(decls, " "), body), nil)
	case "call":
		return g.specCall(env, e)
	case "bin":
		return g.specBin(env, e)
	}
	g.specErr("unsupported expression", e)
	return nil
}

func (g *Gen) specValueSelect(env *Env, e *Expr) *Val {
	base := g.specVal(env, e.Args[0])
	if base == nil {
		return nil
	}
	switch e.Op {
	case "deref":
		g.specErr("dereference of non-pointer", e)
		return nil
	case "index":
		idx := g.specVal(env, e.Args[1])
		if idx == nil {
			return nil
		}
		if base.T != nil {
			if arr, ok := base.T.Underlying().(*types.Array); ok && base.Agg {
				sz := g.lay.Size(arr.Elem())
				cells := g.cellsOf(base)
				if isNum(idx.S[0]) {
					var k int
					fmt.Sscan(idx.S[0], &k)
					if k < 0 || (k+1)*sz > len(cells) {
						g.specErr("constant index out of range", e)
						return nil
					}
					return g.valFromCells(arr.Elem(), cells[k*sz:(k+1)*sz])
				}
				out := make([]string, sz)
				for c := 0; c < sz; c++ {
					t := cells[(int(arr.Len())-1)*sz+c]
					for k := int(arr.Len()) - 2; k >= 0; k-- {
						t = fmt.Sprintf("(ite (= %s %d) %s %s)", idx.S[0], k, cells[k*sz+c], t)
					}
					out[c] = t
				}
				return g.valFromCells(arr.Elem(), out)
			}
		}
		if strings.HasPrefix(base.Sort, "(Array") {
			// SMT array valued spec term
			es := strings.TrimSuffix(strings.TrimPrefix(base.Sort, "(Array Int "), ")")
			return scalar(es, fmt.Sprintf("(select %s %s)", base.S[0], idx.S[0]), nil)
		}
		g.specErr("cannot index", e)
		return nil
	case "sel":
		if base.T != nil {
			if st, ok := base.T.Underlying().(*types.Struct); ok && base.Agg {
				for i := 0; i < st.NumFields(); i++ {
					if st.Field(i).Name() == e.Tok {
						off := g.lay.FieldOff(st, i)
						n := g.lay.Size(st.Field(i).Type())
						return g.valFromCells(st.Field(i).Type(), g.cellsOf(base)[off:off+n])
					}
				}
			}
		}
		g.specErr("no such field", e)
		return nil
	}
	return nil
}

func (g *Gen) specIdent(env *Env, e *Expr) *Val {
	name := e.Tok
	switch name {
	case "true", "false":
		return scalar("Bool", name, nil)
	case "nil":
		return &Val{Sort: "Nil", S: []string{"0"}}
	}
	if v, ok := env.vars[name]; ok {
		return v
	}
	if env.resolve != nil {
		if v := env.resolve(name); v != nil {
			return v
		}
	}
	if v, ok := g.params[name]; ok && env.resolve == nil {
		return v
	}
	if gv, ok := env.ghost[name]; ok {
		return scalar(g.ghostSortOf(name), gv, nil)
	}
	if sig, ok := g.eng.prelude.sigs[name]; ok && len(sig.args) == 0 {
		g.eng.usePrelude(g, name)
		return scalar(sig.ret, name, nil)
	}
	if env.pkg != nil {
		switch m := env.pkg.Members[name].(type) {
		case *ssa.Global:
			elem := m.Type().Underlying().(*types.Pointer).Elem()
			return g.specLoad(env, elem, g.globalObj(m), "0")
		case *ssa.NamedConst:
			if m.Value.Value != nil && m.Value.Value.Kind() == constant.Int {
				bi, _ := new(big.Int).SetString(m.Value.Value.ExactString(), 10)
				return scalar("Int", smtInt(bi), nil)
			}
		}
	}
	g.specErr("unknown identifier "+name, e)
	return nil
}

func (g *Gen) specCall(env *Env, e *Expr) *Val {
	if e.Args[0].Op != "id" {
		g.specErr("call of non-identifier", e)
		return nil
	}
	fn := e.Args[0].Tok
	args := e.Args[1:]
	switch fn {
	case "old":
		sub := *env
		sub.heap = env.old
		sub.ghost = env.oldGhost
		sub.nextobj = env.oldNextobj
		sub.resolve = nil
		return g.specVal(&sub, args[0])
	case "len", "cap":
		a := g.specVal(env, args[0])
		if a == nil {
			return nil
		}
		if a.Sort == "Slice" {
			if fn == "len" {
				return scalar("Int", a.S[2], nil)
			}
			return scalar("Int", a.S[3], nil)
		}
		if a.T != nil {
			if arr, ok := a.T.Underlying().(*types.Array); ok {
				return scalar("Int", fmt.Sprint(arr.Len()), nil)
			}
			if pt, ok := a.T.Underlying().(*types.Pointer); ok {
				if arr, ok := pt.Elem().Underlying().(*types.Array); ok {
					return scalar("Int", fmt.Sprint(arr.Len()), nil)
				}
			}
			if b, ok := a.T.Underlying().(*types.Basic); ok && b.Info()&types.IsString != 0 {
				g.use("str")
				return scalar("Int", fmt.Sprintf("(strlen %s)", a.S[0]), nil)
			}
		}
		g.specErr("len of unsupported value", e)
		return nil
	case "fresh":
		a := g.specVal(env, args[0])
		if a == nil {
			return nil
		}
		if (a.Sort == "Slice" || a.Sort == "Ptr") && len(a.S) >= 2 {
			// a fresh slice or pointer starts at offset 0 of its new object
			return scalar("Bool", fmt.Sprintf("(and (>= %s %s) (< %s %s) (= %s 0))", a.S[0], env.oldNextobj, a.S[0], env.nextobj, a.S[1]), nil)
		}
		return scalar("Bool", fmt.Sprintf("(and (>= %s %s) (< %s %s))", a.S[0], env.oldNextobj, a.S[0], env.nextobj), nil)
	case "pow2":
		a := g.specVal(env, args[0])
		if a == nil {
			return nil
		}
		return scalar("Int", g.pow2term(a.S[0]), nil)
	case "sinceloop":
		// sinceloop(x): x refers to an object allocated since the enclosing loop was entered (or x is empty)
		a := g.specVal(env, args[0])
		if a == nil {
			return nil
		}
		if env.loopNext == "" {
			g.specErr("sinceloop outside of a loop invariant", e)
			return nil
		}
		return scalar("Bool", fmt.Sprintf("(and (>= %s %s) (< %s %s))", a.S[0], env.loopNext, a.S[0], env.nextobj), nil)
	case "int", "uint64", "uint8", "int64", "uint32", "uint":
		a := g.specVal(env, args[0])
		if a == nil {
			return nil
		}
		return scalar("Int", a.S[0], nil)
	case "heapFp", "heapFr", "heapInt":
		// the whole point / scalar heap of the state the expression is evaluated in (for spec functions that follow pointers)
		srt := strings.TrimPrefix(fn, "heap")
		h, ok := env.heap[srt]
		if !ok {
			g.specErr("no "+srt+" heap in this view", e)
			return nil
		}
		return scalar(g.heapSort(srt), h, nil)
	case "allocated":
		// allocated(x): x refers to an object that existed in the pre-state of the contract (or is nil)
		a := g.specVal(env, args[0])
		if a == nil {
			return nil
		}
		return scalar("Bool", fmt.Sprintf("(< %s %s)", a.S[0], env.oldNextobj), nil)
	case "obj":
		a := g.specVal(env, args[0])
		if a == nil {
			return nil
		}
		return scalar("Int", a.S[0], nil)
	case "off":
		a := g.specVal(env, args[0])
		if a == nil || len(a.S) < 2 {
			return nil
		}
		return scalar("Int", a.S[1], nil)
	case "sameslice":
		// same backing cells, same length
		a, b := g.specVal(env, args[0]), g.specVal(env, args[1])
		if a == nil || b == nil {
			return nil
		}
		return scalar("Bool", fmt.Sprintf("(and (= %s %s) (= %s %s) (= %s %s))", a.S[0], b.S[0], a.S[1], b.S[1], a.S[2], b.S[2]), nil)
	case "rpos", "wcalls", "wlen":
		// ghost state of an abstract io.Reader / io.Writer value: cells at negative offsets of its reference
		a := g.specVal(env, args[0])
		if a == nil {
			return nil
		}
		off := map[string]string{"rpos": "(- 1)", "wcalls": "(- 2)", "wlen": "(- 3)"}[fn]
		return scalar("Int", sel2(env.heap["Int"], a.S[0], off), nil)
	case "hcontent":
		// hcontent(h): bytes written to hash object h since its last Reset (ghost Bytes cell of the object)
		a := g.specVal(env, args[0])
		if a == nil {
			return nil
		}
		return scalar("Bytes", sel2(env.heap["Bytes"], a.S[0], "0"), nil)
	case "wout":
		// wout(w, k): k-th byte written so far to writer w (ghost row of the writer, offsets >= 0)
		a := g.specVal(env, args[0])
		k := g.specVal(env, args[1])
		if a == nil || k == nil {
			return nil
		}
		return scalar("Int", sel2(env.heap["Int"], a.S[0], k.S[0]), nil)
	case "wrow":
		// wrow(w): the whole output row of writer w (wout(w, k) == wrow(w)[k])
		a := g.specVal(env, args[0])
		if a == nil {
			return nil
		}
		return scalar("(Array Int Int)", fmt.Sprintf("(select %s %s)", env.heap["Int"], a.S[0]), nil)
	case "boxed":
		// boxed(i, k): k-th cell of the value boxed in interface i
		a := g.specVal(env, args[0])
		k := g.specVal(env, args[1])
		if a == nil || k == nil {
			return nil
		}
		return scalar("Int", sel2(env.heap["Int"], a.S[0], k.S[0]), nil)
	case "row":
		// row(s): the heap row (cell array) of the object s points into, for the element sort
		a := g.specVal(env, args[0])
		if a == nil {
			return nil
		}
		srt := "Int"
		if len(args) > 1 {
			srt = args[1].Tok
		} else if a.T != nil {
			srt = g.elemSort(a.T)
		}
		return scalar(fmt.Sprintf("(Array Int %s)", srt), fmt.Sprintf("(select %s %s)", env.heap[srt], a.S[0]), nil)
	}
	if v := g.eng.specGhostCall(g, env, fn, args, e); v != nil {
		return v
	}
	sig, ok := g.eng.prelude.sigs[fn]
	if !ok {
		g.specErr("unknown spec function "+fn, e)
		return nil
	}
	g.eng.usePrelude(g, fn)
	var terms []string
	for _, a := range args {
		v := g.specVal(env, a)
		if v == nil {
			return nil
		}
		// a slice passed where the function expects (row, offset, length)
		if v.Sort == "Slice" && len(terms) < len(sig.args) && strings.HasPrefix(sig.args[len(terms)], "(Array") {
			srt := strings.TrimSuffix(strings.TrimPrefix(sig.args[len(terms)], "(Array Int "), ")")
			terms = append(terms, fmt.Sprintf("(select %s %s)", env.heap[srt], v.S[0]), v.S[1], v.S[2])
			continue
		}
		if v.Sort == "Bool" || !v.Agg && len(v.S) == 1 {
			terms = append(terms, v.S[0])
		} else {
			terms = append(terms, g.cellsOf(v)...)
		}
	}
	if len(terms) != len(sig.args) {
		g.specErr(fmt.Sprintf("spec function %s expects %d scalar arguments, got %d", fn, len(sig.args), len(terms)), e)
		return nil
	}
	return scalar(sig.ret, fmt.Sprintf("(%s %s)", fn, strings.Join(terms, " ")), nil)
}

func (g *Gen) elemSort(t types.Type) string {
	switch u := t.Underlying().(type) {
	case *types.Slice:
		cs := g.lay.Cells(u.Elem())
		if len(cs) > 0 {
			return cs[0].Sort
		}
	case *types.Pointer:
		cs := g.lay.Cells(u.Elem())
		if len(cs) > 0 {
			return cs[0].Sort
		}
	}
	return "Int"
}

func (g *Gen) specBin(env *Env, e *Expr) *Val {
	op := e.Tok
	a := g.specVal(env, e.Args[0])
	if a == nil {
		return nil
	}
	// short forms for boolean connectives
	switch op {
	case "&&", "||", "==>", "<==>":
		b := g.specVal(env, e.Args[1])
		if b == nil {
			return nil
		}
		if a.Sort != "Bool" || b.Sort != "Bool" {
			g.specErr("boolean connective on non-boolean", e)
			return nil
		}
		switch op {
		case "&&":
			return scalar("Bool", and(a.S[0], b.S[0]), nil)
		case "||":
			return scalar("Bool", or(a.S[0], b.S[0]), nil)
		case "==>":
			return scalar("Bool", fmt.Sprintf("(=> %s %s)", a.S[0], b.S[0]), nil)
		default:
			return scalar("Bool", fmt.Sprintf("(= %s %s)", a.S[0], b.S[0]), nil)
		}
	}
	b := g.specVal(env, e.Args[1])
	if b == nil {
		return nil
	}
	switch op {
	case "==", "!=":
		var eq string
		if a.Sort == "Nil" || b.Sort == "Nil" {
			x := a
			if a.Sort == "Nil" {
				x = b
			}
			eq = fmt.Sprintf("(= %s 0)", x.S[0])
		} else {
			if len(a.S) != len(b.S) {
				g.specErr("comparison of values of different shapes", e)
				return nil
			}
			var ps []string
			ac, bc := a.S, b.S
			if a.Sort == "Bool" != (b.Sort == "Bool") {
				g.specErr("comparison of bool with non-bool", e)
				return nil
			}
			for i := range ac {
				ps = append(ps, fmt.Sprintf("(= %s %s)", ac[i], bc[i]))
			}
			eq = and(ps...)
		}
		if op == "!=" {
			eq = not(eq)
		}
		return scalar("Bool", eq, nil)
	case "<", "<=", ">", ">=":
		return scalar("Bool", fmt.Sprintf("(%s %s %s)", op, a.S[0], b.S[0]), nil)
	}
	if ops, ok := fieldOps[a.Sort]; ok {
		if f, ok := ops[op]; ok {
			return scalar(a.Sort, fmt.Sprintf("(%s %s %s)", f, a.S[0], b.S[0]), nil)
		}
		g.specErr("operator not defined on "+a.Sort, e)
		return nil
	}
	switch op {
	case "+", "-", "*":
		// fold numerals (concrete counters of unrolled loops make weights like pow2(64*l + 8*w) literal)
		if isNum(a.S[0]) && isNum(b.S[0]) {
			x, okx := new(big.Int).SetString(a.S[0], 10)
			y, oky := new(big.Int).SetString(b.S[0], 10)
			if okx && oky {
				r := new(big.Int)
				switch op {
				case "+":
					r.Add(x, y)
				case "-":
					r.Sub(x, y)
				case "*":
					r.Mul(x, y)
				}
				return scalar("Int", smtInt(r), nil)
			}
		}
		return scalar("Int", fmt.Sprintf("(%s %s %s)", op, a.S[0], b.S[0]), nil)
	case "/":
		return scalar("Int", fmt.Sprintf("(div %s %s)", a.S[0], b.S[0]), nil)
	case "%":
		return scalar("Int", fmt.Sprintf("(mod %s %s)", a.S[0], b.S[0]), nil)
	case "<<":
		return scalar("Int", fmt.Sprintf("(* %s %s)", a.S[0], g.pow2term(b.S[0])), nil)
	case ">>":
		return scalar("Int", fmt.Sprintf("(div %s %s)", a.S[0], g.pow2term(b.S[0])), nil)
	}
	g.specErr("unsupported operator "+op, e)
	return nil
}

// ---------- footprints ----------

type region struct {
	sort, obj, lo, hi string
	n                 int // constant size, or -1
}

func (g *Gen) footprint(env *Env, e *Expr) []region {
	if e.Op == "call" && e.Args[0].Op == "id" && e.Args[0].Tok == "ghost" {
		return nil
	}
	if e.Op == "call" && e.Args[0].Op == "id" && len(e.Args) >= 2 {
		switch e.Args[0].Tok {
		case "rpos", "wcalls", "wlen":
			a := g.specVal(env, e.Args[1])
			if a == nil {
				return nil
			}
			off := map[string]string{"rpos": "(- 1)", "wcalls": "(- 2)", "wlen": "(- 3)"}[e.Args[0].Tok]
			return []region{{"Int", a.S[0], off, fmt.Sprintf("(+ %s 1)", off), 1}}
		case "hcontent":
			a := g.specVal(env, e.Args[1])
			if a == nil {
				return nil
			}
			return []region{{"Bytes", a.S[0], "0", "1", 1}}
		case "wout":
			// wout(w, lo, hi): output bytes lo..hi-1 of writer w
			a := g.specVal(env, e.Args[1])
			lo := g.specVal(env, e.Args[2])
			hi := g.specVal(env, e.Args[3])
			if a == nil || lo == nil || hi == nil {
				return nil
			}
			return []region{{"Int", a.S[0], lo.S[0], hi.S[0], -1}}
		}
	}
	if e.Op != "addr" {
		if t, o, off, ok := g.addrOf(env, e); ok {
			// an lvalue of pointer or slice type named without deref: means the location itself
			n := g.lay.Size(t)
			return []region{{g.sortsOf(t), o, off, addOff(off, n), n}}
		}
	}
	v := g.specVal(env, e)
	if v == nil {
		return nil
	}
	switch v.Sort {
	case "Ptr":
		if pt, ok := v.T.Underlying().(*types.Pointer); ok {
			n := g.lay.Size(pt.Elem())
			return []region{{g.sortsOf(pt.Elem()), v.S[0], v.S[1], addOff(v.S[1], n), n}}
		}
	case "Slice":
		sz := g.lay.Size(v.T.Underlying().(*types.Slice).Elem())
		hi := g.mulAdd(v.S[1], v.S[2], sz)
		n := -1
		if isNum(v.S[2]) {
			fmt.Sscan(v.S[2], &n)
			n *= sz
		}
		return []region{{g.sortsOf(v.T.Underlying().(*types.Slice).Elem()), v.S[0], v.S[1], hi, n}}
	}
	g.specErr("modifies clause is not a location, pointer or slice", e)
	return nil
}

// sortsOf: comma-separated cell sorts occurring in a type.
func (g *Gen) sortsOf(t types.Type) string {
	seen := map[string]bool{}
	var out []string
	for _, c := range g.lay.Cells(t) {
		if !seen[c.Sort] {
			seen[c.Sort] = true
			out = append(out, c.Sort)
		}
	}
	if len(out) == 0 {
		return "none"
	}
	return strings.Join(out, ",")
}

func regionHasSort(r region, s string) bool {
	if r.sort == "*" {
		return true
	}
	for _, x := range strings.Split(r.sort, ",") {
		if x == s {
			return true
		}
	}
	return false
}

// dropAddressTakenParams: inside the body a parameter whose address is taken lives in memory (an Alloc named
// like it); there its name denotes the current content, not the entry value.
func (g *Gen) dropAddressTakenParams(env *Env) {
	for _, b := range g.fn.Blocks {
		for _, ins := range b.Instrs {
			if al, ok := ins.(*ssa.Alloc); ok {
				if _, isParam := g.params[al.Comment]; isParam {
					delete(env.vars, al.Comment)
				}
			}
		}
	}
}
