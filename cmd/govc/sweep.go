package main

// Zero-annotation frame sweep (DESIGN §8 C13 item 2, C12 O1/O2).
//
// Every function of /repo without an explicit contract gets the default frame contract
//     modifies: nothing that is rooted at a package-level variable, and nothing reachable from a
//               parameter that is not an out-parameter (receiver / result destination)
// The obligations are one per store-like instruction and per call argument; they are decided by a
// syntactic points-to-root argument over go/ssa (no SMT): the address written is traced through
// IndexAddr / FieldAddr / Slice / loads / phis / calls to its roots, and a root that is a global or a
// read-only parameter fails the obligation. Summaries (which parameters a function may write through,
// where its results may point) are computed by a fixpoint over the static call graph; callees with an
// explicit contract contribute their modifies clause instead of their body.

import (
	"fmt"
	"go/types"
	"sort"
	"strings"

	"golang.org/x/tools/go/ssa"
)

type rootSet map[string]bool // "param:<i>", "global:<pkg.name>", "fresh", "unknown", "free:<i>"

func (r rootSet) add(o rootSet) bool {
	ch := false
	for k := range o {
		if !r[k] {
			r[k] = true
			ch = true
		}
	}
	return ch
}

type fnSummary struct {
	writes  rootSet // roots this function may write through (params by index, globals)
	returns rootSet // roots its pointer-like results may point to
}

type Sweeper struct {
	e    *Engine
	sums map[*ssa.Function]*fnSummary
	fns  []*ssa.Function
}

func pointerLike(t types.Type) bool {
	switch u := t.Underlying().(type) {
	case *types.Pointer, *types.Slice, *types.Map, *types.Chan, *types.Interface, *types.Signature:
		return true
	case *types.Struct:
		for i := 0; i < u.NumFields(); i++ {
			if pointerLike(u.Field(i).Type()) {
				return true
			}
		}
	case *types.Array:
		return pointerLike(u.Elem())
	case *types.Tuple:
		for i := 0; i < u.Len(); i++ {
			if pointerLike(u.At(i).Type()) {
				return true
			}
		}
	}
	return false
}

func (s *Sweeper) isRepoFn(fn *ssa.Function) bool {
	p := fn.Pkg
	if p == nil && fn.Parent() != nil {
		p = fn.Parent().Pkg
	}
	return p != nil && strings.HasPrefix(p.Pkg.Path(), repoMod) && len(fn.Blocks) > 0
}

// roots of a value: where the memory it points to may come from.
func (s *Sweeper) roots(fn *ssa.Function, v ssa.Value, seen map[ssa.Value]bool) rootSet {
	out := rootSet{}
	if seen[v] {
		return out
	}
	seen[v] = true
	switch x := v.(type) {
	case *ssa.Parameter:
		for i, p := range fn.Params {
			if p == x {
				out[fmt.Sprintf("param:%d", i)] = true
			}
		}
	case *ssa.FreeVar:
		for i, p := range fn.FreeVars {
			if p == x {
				out[fmt.Sprintf("free:%d", i)] = true
			}
		}
	case *ssa.Global:
		name := x.Name()
		if x.Pkg != nil {
			name = x.Pkg.Pkg.Path() + "." + name
		}
		out["global:"+name] = true
	case *ssa.Alloc, *ssa.MakeSlice, *ssa.MakeMap, *ssa.MakeChan, *ssa.MakeClosure:
		out["fresh"] = true
	case *ssa.Const, *ssa.Function, *ssa.Builtin:
		out["fresh"] = true
	case *ssa.IndexAddr:
		out.add(s.roots(fn, x.X, seen))
	case *ssa.FieldAddr:
		out.add(s.roots(fn, x.X, seen))
	case *ssa.Slice:
		out.add(s.roots(fn, x.X, seen))
	case *ssa.SliceToArrayPointer:
		out.add(s.roots(fn, x.X, seen))
	case *ssa.ChangeType:
		out.add(s.roots(fn, x.X, seen))
	case *ssa.ChangeInterface:
		out.add(s.roots(fn, x.X, seen))
	case *ssa.MakeInterface:
		if pointerLike(x.X.Type()) {
			out.add(s.roots(fn, x.X, seen))
		} else {
			out["fresh"] = true
		}
	case *ssa.Convert:
		if pointerLike(x.X.Type()) {
			out.add(s.roots(fn, x.X, seen))
		} else {
			out["fresh"] = true
		}
	case *ssa.Phi:
		for _, e := range x.Edges {
			out.add(s.roots(fn, e, seen))
		}
	case *ssa.UnOp:
		// load: a pointer stored in memory reachable from the roots of the address. For memory allocated in this
		// function (locals, make) the stored values are tracked (field-insensitively) through the stores into it.
		base := rootOf(x.X)
		switch base.(type) {
		case *ssa.Alloc, *ssa.MakeSlice:
			found := false
			for _, b := range fn.Blocks {
				for _, ins := range b.Instrs {
					if st, ok := ins.(*ssa.Store); ok && rootOf(st.Addr) == base && pointerLike(st.Val.Type()) {
						out.add(s.roots(fn, st.Val, seen))
						found = true
					}
				}
			}
			if !found || true {
				out["fresh"] = true
			}
		default:
			out.add(s.roots(fn, x.X, seen))
		}
	case *ssa.Field:
		out.add(s.roots(fn, x.X, seen))
	case *ssa.Index:
		out.add(s.roots(fn, x.X, seen))
	case *ssa.Extract:
		out.add(s.roots(fn, x.Tuple, seen))
	case *ssa.Lookup:
		out.add(s.roots(fn, x.X, seen))
	case *ssa.TypeAssert:
		out.add(s.roots(fn, x.X, seen))
	case *ssa.Next:
		// iteration over a map built in this function: its keys/values are what MapUpdate put there
		if rg, ok := x.Iter.(*ssa.Range); ok {
			if _, isMap := rg.X.Type().Underlying().(*types.Map); isMap {
				found := false
				for _, b := range fn.Blocks {
					for _, ins := range b.Instrs {
						if mu, ok := ins.(*ssa.MapUpdate); ok && rootOf(mu.Map) == rootOf(rg.X) {
							if pointerLike(mu.Key.Type()) {
								out.add(s.roots(fn, mu.Key, seen))
							}
							if pointerLike(mu.Value.Type()) {
								out.add(s.roots(fn, mu.Value, seen))
							}
							found = true
						}
					}
				}
				if _, mk := rootOf(rg.X).(*ssa.MakeMap); mk && found {
					return out
				}
			}
		}
		out["unknown"] = true
	case *ssa.Range:
		out["unknown"] = true
	case *ssa.Call:
		out.add(s.callResultRoots(fn, x.Common(), seen))
	case *ssa.BinOp:
		out["fresh"] = true
	default:
		out["unknown"] = true
	}
	return out
}

func (s *Sweeper) callResultRoots(fn *ssa.Function, cc *ssa.CallCommon, seen map[ssa.Value]bool) rootSet {
	out := rootSet{}
	if b, ok := cc.Value.(*ssa.Builtin); ok {
		switch b.Name() {
		case "append":
			out.add(s.roots(fn, cc.Args[0], seen))
			out["fresh"] = true
			// the appended elements become reachable from the result
			if len(cc.Args) > 1 && pointerLike(cc.Args[1].Type()) {
				if sl, ok := cc.Args[1].Type().Underlying().(*types.Slice); ok && pointerLike(sl.Elem()) {
					base := rootOf(cc.Args[1])
					switch base.(type) {
					case *ssa.Alloc, *ssa.MakeSlice:
						for _, b := range fn.Blocks {
							for _, ins := range b.Instrs {
								if st, ok := ins.(*ssa.Store); ok && rootOf(st.Addr) == base && pointerLike(st.Val.Type()) {
									out.add(s.roots(fn, st.Val, seen))
								}
							}
						}
					default:
						out.add(s.roots(fn, cc.Args[1], seen))
					}
				}
			}
		default:
			out["fresh"] = true
		}
		return out
	}
	callee := cc.StaticCallee()
	args := cc.Args
	if callee != nil {
		if sum, ok := s.sums[callee]; ok {
			for r := range sum.returns {
				s.mapCalleeRoot(fn, r, args, cc, out, seen)
			}
			return out
		}
		// contract: fresh results
		if ct := s.e.contractFor(callee); ct != nil {
			fresh := false
			for _, c := range ct.Ensures {
				if strings.Contains(c.Text, "fresh(result") {
					fresh = true
				}
			}
			if fresh {
				out["fresh"] = true
				return out
			}
			// "result == z": the result is the named parameter
			names := s.e.paramNamesOf(callee)
			aliased := false
			for _, c := range ct.Ensures {
				for i, n := range names {
					if (strings.Contains(c.Text, "result == "+n+" ") || strings.HasSuffix(c.Text, "result == "+n) || strings.Contains(c.Text, "result0 == "+n+" ")) && i < len(args) {
						out.add(s.roots(fn, args[i], seen))
						aliased = true
					}
				}
			}
			if aliased {
				return out
			}
		}
		if !s.isRepoFn(callee) && callee.Signature.Recv() != nil && len(args) > 0 {
			// external method without contract: by the Go convention used throughout gnark/stdlib it returns its
			// receiver or a fresh value
			out["fresh"] = true
			out.add(s.roots(fn, args[0], seen))
			return out
		}
	}
	// unknown callee: results may alias any pointer-like argument
	out["fresh"] = true
	for _, a := range args {
		if pointerLike(a.Type()) {
			out.add(s.roots(fn, a, seen))
		}
	}
	if cc.IsInvoke() {
		out.add(s.roots(fn, cc.Value, seen))
	}
	return out
}

func (s *Sweeper) mapCalleeRoot(fn *ssa.Function, r string, args []ssa.Value, cc *ssa.CallCommon, out rootSet, seen map[ssa.Value]bool) {
	switch {
	case strings.HasPrefix(r, "param:"):
		var i int
		fmt.Sscanf(r, "param:%d", &i)
		if i < len(args) {
			out.add(s.roots(fn, args[i], seen))
			// a function value the callee may invoke: its own effects happen on behalf of this caller
			if mc, ok := args[i].(*ssa.MakeClosure); ok {
				if sum, ok := s.sums[mc.Fn.(*ssa.Function)]; ok {
					for w := range sum.writes {
						if strings.HasPrefix(w, "free:") {
							var k int
							fmt.Sscanf(w, "free:%d", &k)
							if k < len(mc.Bindings) {
								out.add(s.roots(fn, mc.Bindings[k], seen))
								if al, isAlloc := mc.Bindings[k].(*ssa.Alloc); isAlloc {
									for _, b := range fn.Blocks {
										for _, ins := range b.Instrs {
											if st, ok := ins.(*ssa.Store); ok && rootOf(st.Addr) == ssa.Value(al) && pointerLike(st.Val.Type()) {
												out.add(s.roots(fn, st.Val, seen))
											}
										}
									}
								}
							}
						} else if strings.HasPrefix(w, "global:") {
							out[w] = true
						}
					}
				}
			}
		}
	case strings.HasPrefix(r, "free:"):
		var i int
		fmt.Sscanf(r, "free:%d", &i)
		if mc, ok := cc.Value.(*ssa.MakeClosure); ok && i < len(mc.Bindings) {
			out.add(s.roots(fn, mc.Bindings[i], seen))
			// a captured variable: the closure reaches whatever the variable holds
			if al, isAlloc := mc.Bindings[i].(*ssa.Alloc); isAlloc {
				for _, b := range fn.Blocks {
					for _, ins := range b.Instrs {
						if st, ok := ins.(*ssa.Store); ok && rootOf(st.Addr) == ssa.Value(al) && pointerLike(st.Val.Type()) {
							out.add(s.roots(fn, st.Val, seen))
						}
					}
				}
			}
		} else {
			out["unknown"] = true
		}
	default:
		out[r] = true
	}
}

// resolveDyn: the closure a function value denotes, when it can be traced syntactically
// (closure literal, local variable assigned once, captured variable of the enclosing function).
func (s *Sweeper) resolveDyn(fn *ssa.Function, v ssa.Value, depth int) *ssa.Function {
	if depth > 4 {
		return nil
	}
	switch x := v.(type) {
	case *ssa.MakeClosure:
		return x.Fn.(*ssa.Function)
	case *ssa.Function:
		return x
	case *ssa.UnOp:
		switch a := x.X.(type) {
		case *ssa.Alloc:
			var found *ssa.Function
			n := 0
			if refs := a.Referrers(); refs != nil {
				for _, r := range *refs {
					if st, ok := r.(*ssa.Store); ok && st.Addr == ssa.Value(a) {
						n++
						found = s.resolveDyn(fn, st.Val, depth+1)
					}
				}
			}
			if n == 1 {
				return found
			}
		case *ssa.FreeVar:
			return s.resolveFree(fn, a, depth, true)
		}
	case *ssa.FreeVar:
		return s.resolveFree(fn, x, depth, false)
	}
	return nil
}

func (s *Sweeper) resolveFree(fn *ssa.Function, fv *ssa.FreeVar, depth int, deref bool) *ssa.Function {
	parent := fn.Parent()
	if parent == nil {
		return nil
	}
	idx := -1
	for i, f := range fn.FreeVars {
		if f == fv {
			idx = i
		}
	}
	for _, b := range parent.Blocks {
		for _, ins := range b.Instrs {
			if mc, ok := ins.(*ssa.MakeClosure); ok && mc.Fn == ssa.Value(fn) && idx >= 0 && idx < len(mc.Bindings) {
				bv := mc.Bindings[idx]
				if deref {
					// the captured variable's address: its content is what was stored into it
					if a, ok := bv.(*ssa.Alloc); ok {
						var found *ssa.Function
						n := 0
						if refs := a.Referrers(); refs != nil {
							for _, r := range *refs {
								if st, ok := r.(*ssa.Store); ok && st.Addr == ssa.Value(a) {
									n++
									found = s.resolveDyn(parent, st.Val, depth+1)
								}
							}
						}
						if n == 1 {
							return found
						}
					}
					return nil
				}
				return s.resolveDyn(parent, bv, depth+1)
			}
		}
	}
	return nil
}

// writesOfCall: roots (in the caller) that a call may write through.
func (s *Sweeper) writesOfCall(fn *ssa.Function, cc *ssa.CallCommon) rootSet {
	out := rootSet{}
	if cc.StaticCallee() == nil && !cc.IsInvoke() {
		if target := s.resolveDyn(fn, cc.Value, 0); target != nil {
			if sum, ok := s.sums[target]; ok {
				for r := range sum.writes {
					if strings.HasPrefix(r, "free:") {
						// free variables of the resolved closure: bindings live in the function that created it
						out["fresh"] = true
						continue
					}
					s.mapCalleeRoot(fn, r, cc.Args, cc, out, map[ssa.Value]bool{})
				}
				return out
			}
		}
	}
	if b, ok := cc.Value.(*ssa.Builtin); ok {
		switch b.Name() {
		case "copy":
			out.add(s.roots(fn, cc.Args[0], map[ssa.Value]bool{}))
		case "append":
			// may write in place into the backing array beyond len: treated as a write through the slice
			// only if the slice is not fresh; handled by the caller through result roots
		}
		return out
	}
	callee := cc.StaticCallee()
	if callee != nil {
		if sum, ok := s.sums[callee]; ok {
			for r := range sum.writes {
				s.mapCalleeRoot(fn, r, cc.Args, cc, out, map[ssa.Value]bool{})
			}
			return out
		}
		if ct := s.e.contractFor(callee); ct != nil {
			if ct.ModAny || len(ct.ModSorts) > 0 {
				for _, a := range cc.Args {
					if pointerLike(a.Type()) {
						out.add(s.roots(fn, a, map[ssa.Value]bool{}))
					}
				}
				return out
			}
			names := s.e.paramNamesOf(callee)
			for _, m := range ct.Modifies {
				id := baseIdent(m.E)
				for i, n := range names {
					if n == id && i < len(cc.Args) {
						out.add(s.roots(fn, cc.Args[i], map[ssa.Value]bool{}))
					}
				}
			}
			return out
		}
		if knownPure(funcKey(callee)) {
			return out
		}
		if !s.isRepoFn(callee) && callee.Signature.Recv() != nil && len(cc.Args) > 0 {
			// external method without contract: writes its receiver; arguments are read-only except for the
			// documented destination-argument methods listed in writesArgs
			out.add(s.roots(fn, cc.Args[0], map[ssa.Value]bool{}))
			if writesArgs[callee.Name()] {
				for _, a := range cc.Args[1:] {
					if pointerLike(a.Type()) {
						out.add(s.roots(fn, a, map[ssa.Value]bool{}))
					}
				}
			}
			return out
		}
	}
	if cc.IsInvoke() {
		if ct := s.e.contractForInvoke(cc); ct != nil {
			names := sigParamNames(cc.Signature())
			for _, m := range ct.Modifies {
				id := baseIdent(m.E)
				if id == "self" {
					out.add(s.roots(fn, cc.Value, map[ssa.Value]bool{}))
				}
				for i, n := range names {
					if n == id && i < len(cc.Args) {
						out.add(s.roots(fn, cc.Args[i], map[ssa.Value]bool{}))
					}
				}
			}
			return out
		}
		switch cc.Method.Name() {
		case "String", "Error", "Size", "BlockSize":
			return out // read-only by their documented meaning
		}
		if knownPureMethod(cc.Method.Name()) {
			out.add(s.roots(fn, cc.Value, map[ssa.Value]bool{}))
			return out
		}
	}
	// unknown callee (external without contract, dynamic call): may write through every pointer-like argument
	for _, a := range cc.Args {
		if pointerLike(a.Type()) {
			out.add(s.roots(fn, a, map[ssa.Value]bool{}))
		}
	}
	if cc.IsInvoke() || callee == nil {
		out.add(s.roots(fn, cc.Value, map[ssa.Value]bool{}))
	}
	return out
}

// knownPure: external functions known not to write through their arguments (documented read-only behaviour).
func knownPure(key string) bool {
	for _, p := range []string{"fmt.", "errors.", "strconv.", "math.", "math/bits.", "runtime.NumCPU", "runtime.GOMAXPROCS",
		"bytes.Equal", "bytes.NewBuffer", "crypto/sha256.New", "math/big.NewInt", "context.Background", "golang.org/x/sync/errgroup.WithContext",
		"reflect.TypeOf", "encoding/binary.bigEndian.Uint64", "encoding/binary.littleEndian.Uint64", "strings.", "sort.", "time."} {
		if strings.HasPrefix(key, p) {
			return true
		}
	}
	return false
}

// writesArgs: external methods that write through an argument (destination buffers).
var writesArgs = map[string]bool{"Read": true, "ReadFull": true, "PutUint64": true, "PutUint32": true, "PutUint16": true, "PutElement": true,
	"BigInt": true, "ToBigInt": true, "ToBigIntRegular": true, "Scan": true, "Decode": true, "Unmarshal": true, "FillBytes": true, "ReadFrom": true, "Do": true}

// knownPureMethod: interface methods that only modify their receiver's own state (hash.Hash, io.Writer).
func knownPureMethod(name string) bool {
	switch name {
	case "Write", "Sum", "Reset", "Error", "String", "Size", "BlockSize":
		return true
	}
	return false
}

func (s *Sweeper) compute() {
	s.sums = map[*ssa.Function]*fnSummary{}
	for fn := range s.allFns() {
		s.fns = append(s.fns, fn)
	}
	sort.Slice(s.fns, func(i, j int) bool { return funcKey(s.fns[i]) < funcKey(s.fns[j]) })
	for _, fn := range s.fns {
		s.sums[fn] = &fnSummary{writes: rootSet{}, returns: rootSet{}}
	}
	for iter := 0; iter < 20; iter++ {
		changed := false
		for _, fn := range s.fns {
			sum := s.sums[fn]
			for _, b := range fn.Blocks {
				for _, ins := range b.Instrs {
					switch x := ins.(type) {
					case *ssa.Store:
						if sum.writes.add(s.roots(fn, x.Addr, map[ssa.Value]bool{})) {
							changed = true
						}
					case *ssa.MapUpdate:
						if sum.writes.add(s.roots(fn, x.Map, map[ssa.Value]bool{})) {
							changed = true
						}
					case *ssa.Send:
					case ssa.CallInstruction:
						if sum.writes.add(s.writesOfCall(fn, x.Common())) {
							changed = true
						}
					case *ssa.Return:
						for _, r := range x.Results {
							if pointerLike(r.Type()) {
								if sum.returns.add(s.roots(fn, r, map[ssa.Value]bool{})) {
									changed = true
								}
							}
						}
					}
				}
			}
		}
		if !changed {
			break
		}
	}
}

func (s *Sweeper) allFns() map[*ssa.Function]bool {
	out := map[*ssa.Function]bool{}
	var addAnon func(fn *ssa.Function)
	addAnon = func(fn *ssa.Function) {
		for _, a := range fn.AnonFuncs {
			if s.isRepoFn(a) {
				out[a] = true
				addAnon(a)
			}
		}
	}
	for _, fn := range s.e.fnByKey {
		if !s.isRepoFn(fn) {
			continue
		}
		pos := s.e.fset.Position(fn.Pos())
		if strings.HasSuffix(pos.Filename, "_test.go") || strings.HasSuffix(pos.Filename, "_verif.go") {
			continue
		}
		out[fn] = true
		addAnon(fn)
	}
	return out
}

// outParams: parameters a function is allowed to write through: its receiver, parameters named as results
// destinations, the transcript, and everything for unexported helpers whose callers are checked instead.
func allowedWrite(fn *ssa.Function, idx int) bool {
	if idx >= len(fn.Params) {
		return false
	}
	p := fn.Params[idx]
	if fn.Signature.Recv() != nil && idx == 0 {
		// pointer receivers are out-parameters by convention (z.Add, p.Set, ...), value receivers are copies
		return true
	}
	switch p.Name() {
	case "res", "result", "results", "z", "p", "transcript", "t", "target", "dst", "out", "buckets", "w", "r", "chRes", "chDone", "ch", "chChunk":
		return true
	}
	return false
}

// Obligations of the sweep for property prop ("C13": globals + read-only parameters, "C12": globals only).
func (e *Engine) sweepDebug(unit string) {
	s := &Sweeper{e: e}
	s.compute()
	for _, fn := range s.fns {
		if !strings.Contains(funcKey(fn), unit) {
			continue
		}
		fmt.Println("==", funcKey(fn), "writes:", keys(s.sums[fn].writes), "returns:", keys(s.sums[fn].returns))
		for _, b := range fn.Blocks {
			for _, ins := range b.Instrs {
				switch x := ins.(type) {
				case *ssa.Store:
					fmt.Printf("   store %-40s -> %v\n", x.String(), keys(s.roots(fn, x.Addr, map[ssa.Value]bool{})))
				case ssa.CallInstruction:
					if w := s.writesOfCall(fn, x.Common()); len(w) > 0 {
						fmt.Printf("   call  %-60.60s -> %v\n", x.Common().String(), keys(w))
					}
				}
			}
		}
	}
}

func keys(r rootSet) []string {
	var out []string
	for k := range r {
		out = append(out, k)
	}
	sort.Strings(out)
	return out
}

func (e *Engine) sweepObligations(prop string) []*Obligation {
	s := &Sweeper{e: e}
	s.compute()
	var obls []*Obligation
	for _, fn := range s.fns {
		key := shortUnit(funcKey(fn))
		if fn.Name() == "init" || strings.HasPrefix(fn.Name(), "init#") || strings.Contains(funcKey(fn), ".init$") {
			continue
		}
		// (a) every store-like instruction: not rooted at a package-level variable
		n := 0
		for _, b := range fn.Blocks {
			for _, ins := range b.Instrs {
				var rs rootSet
				what := ""
				switch x := ins.(type) {
				case *ssa.Store:
					rs = s.roots(fn, x.Addr, map[ssa.Value]bool{})
					what = "store"
				case *ssa.MapUpdate:
					rs = s.roots(fn, x.Map, map[ssa.Value]bool{})
					what = "map update"
				case ssa.CallInstruction:
					rs = s.writesOfCall(fn, x.Common())
					what = "call " + x.Common().String()
					if len(what) > 80 {
						what = what[:80]
					}
				default:
					continue
				}
				o := &Obligation{Name: fmt.Sprintf("%s#sweep.global%d", key, n), Kind: "sweep", Unit: key, Status: "proved", Solver: "syntactic",
					Desc: "default frame contract: " + what + " does not write a package-level variable", Props: []string{"C13", "C12"}}
				n++
				if p := ins.Pos(); p.IsValid() {
					pp := e.fset.Position(p)
					o.Pos = fmt.Sprintf("%s:%d", pp.Filename, pp.Line)
				}
				for r := range rs {
					if r == "unknown" && !sweepAllow[key+":unknown"] {
						o.Status = "failed"
						o.Output = "target of the write cannot be traced (range over map / channel receive)"
					}
					if strings.HasPrefix(r, "global:") && strings.HasPrefix(strings.TrimPrefix(r, "global:"), repoMod) {
						if strings.HasSuffix(r, ".bigIntPool") || strings.HasSuffix(r, "init$guard") {
							continue // sync.Pool is the one deliberately shared mutable object (rule R4)
						}
						o.Status = "failed"
						o.Output = "may write through " + r
					}
				}
				obls = append(obls, o)
			}
		}
		// (b) exported API and helpers: parameters written through must be out-parameters
		if prop == "C13" {
			sum := s.sums[fn]
			var ws []string
			for r := range sum.writes {
				ws = append(ws, r)
			}
			sort.Strings(ws)
			for _, r := range ws {
				if !strings.HasPrefix(r, "param:") {
					continue
				}
				var i int
				fmt.Sscanf(r, "param:%d", &i)
				if i >= len(fn.Params) {
					continue
				}
				o := &Obligation{Name: fmt.Sprintf("%s#sweep.param.%s", key, fn.Params[i].Name()), Kind: "sweep", Unit: key, Status: "proved", Solver: "syntactic",
					Desc: "default frame contract: parameter " + fn.Params[i].Name() + " is written through only if it is an out-parameter", Props: []string{"C13"}}
				if pp := e.fset.Position(fn.Pos()); pp.IsValid() {
					o.Pos = fmt.Sprintf("%s:%d", pp.Filename, pp.Line)
				}
				if !allowedWrite(fn, i) && !sweepAllow[key+":"+fn.Params[i].Name()] {
					o.Status = "failed"
					o.Output = "function may write through parameter " + fn.Params[i].Name() + " which is not an out-parameter"
				}
				obls = append(obls, o)
			}
		}
	}
	return obls
}

// sweepAllow: reviewed exceptions "unit:param" (the parameter is documented to be mutated).
var sweepAllow = map[string]bool{
	"bandersnatch/fp.MulBy5:a": true, // documented: multiplies a in place
	"bandersnatch/fp.sqrtAlg_ComputeRelevantPowers:squareRootCandidate": true, // output parameter
	"bandersnatch/fp.sqrtAlg_ComputeRelevantPowers:rootOfUnity":         true, // output parameter
	"bandersnatch/fr._butterflyGeneric:a":                               true, // documented: a, b = a+b, a-b in place
	"bandersnatch/fr._butterflyGeneric:b":                               true,
	"bandersnatch.msmC4$1:pointProj":                                    true, // result slot of the chunk worker
	"banderwagon.BatchNormalize:elements":                               true, // documented in-place normalisation (value preserving: C19)
	"github.com/crate-crypto/go-ipa.CreateMultiProof:Cs":                true, // the one permitted effect on inputs (C13 statement): commitments are re-normalised
	"common/parallel.Execute:work":                                      true, // the work function's effects are attributed to the caller that built it
}
