package main

// VC generation: one verification unit per contracted *ssa.Function.
// The unit's SMT prefix is a linear list of declarations / definitions / guarded assumptions;
// every obligation refers to a prefix length and a goal.

import (
	"fmt"
	"go/constant"
	"go/token"
	"go/types"
	"math/big"
	"sort"
	"strings"
	"sync"

	"golang.org/x/tools/go/ssa"
)

// ---------- values ----------

type Val struct {
	T     types.Type
	Sort  string   // for scalars: Int, Bool, Fp, Fr, Bytes ...
	S     []string // SMT terms (scalar: 1; pointer: obj,off; slice: obj,off,len,cap; aggregate: per cell)
	Tuple []*Val
	Clos  *ssa.MakeClosure
	Fn    *ssa.Function
	Agg   bool // aggregate (array/struct) given cell by cell
}

func scalar(sort, term string, t types.Type) *Val { return &Val{T: t, Sort: sort, S: []string{term}} }

type Obligation struct {
	Name       string
	Kind       string
	Unit       string
	PrefixLen  int
	Goal       string
	Extra      []string // extra declarations local to this obligation
	Pos        string
	Desc       string
	Props      []string
	MustSat    bool // cover obligations: expected sat
	Using      []string
	UsingFacts []string
	Tag        int // slicing tag of the block the obligation belongs to (-1: prologue)
	SinceLine  int // sliced context additionally keeps every prefix line from this index on (-1: none)
	// results
	Status  string // proved, failed, unknown, error
	Solver  string
	Time    float64
	Model   string
	Output  string
	SMTFile string
}

type blockState struct {
	reach   string
	heap    map[string]string
	nextobj string
	conds   []string // condition for each successor edge
	ghost   map[string]string
}

type loopInfo struct {
	header  *ssa.BasicBlock
	ordinal int
	body    map[*ssa.BasicBlock]bool
	spec    *LoopSpec
	// state at loop head (after havoc)
	headHeap     map[string]string
	preHeap      map[string]string
	headNextobj  string
	decAtHead    string
	headGhost    map[string]string
	preNext      string // allocation counter at loop entry
	unknownSorts map[string]bool
	stable       []stablePath
	appendFresh  bool // appends to loop-carried slices: in-place targets must be objects allocated since loop entry
}

type Gen struct {
	eng   *Engine
	fn    *ssa.Function
	ct    *Contract
	unit  string
	view  *View
	lay   *Layout
	sorts []string // heap sorts

	lines []string
	// control-flow slicing: every emitted line carries the tag of the block that produced it (-1: prologue); an
	// obligation keeps only the lines of blocks that can reach its own block along forward edges
	lineTag    []int
	replayMode bool
mapModel *ssa.MakeMap // option mapmodel: the one modelled map and its range statement
	mapRange *ssa.Range
		retStates  map[int]retState // per return ordinal: heap and result values (for replay)
	curTag     int
	tagAnc     map[int]map[int]bool
	// iterations of unrolled loops with cut points are verified independently: each gets a synthetic tag whose
	// ancestors are the code before the loop (not the earlier iterations, which the cut point forgets)
	tagMu       sync.Mutex
	usedAts     map[*AtStmt]bool
	tagOverride int
	synAnc      map[int]map[int]bool
	synOwner    map[int]int
	nextSynTag  int
	cutHook     func()
	curCall     *ssa.Call
	cellConstOK map[string]bool
	cellConst   [][3]string   // (object, offset, numeral) of cells fixed by the current case of a contract split
	cutBase     *cutBaseState // state at the entry of the unrolled loop: later iterations are havocked relative to it
	obls        []*Obligation
	ncnt        int
	kcnt        map[string]int

	vals   map[ssa.Value]*Val
	states map[*ssa.BasicBlock]*blockState
	loops  map[*ssa.BasicBlock]*loopInfo
	inLoop map[*ssa.BasicBlock][]*loopInfo

	// current state while walking a block
	cur     *ssa.BasicBlock
	reach   string
	heap    map[string]string
	nextobj string
	ghost   map[string]string // ghost variables (name -> term)

	H0       map[string]string
	nextobj0 string
	params   map[string]*Val
	globals  map[*ssa.Global]string // object ids of globals

	havocCallees map[string]bool
	assumedUsed  map[string]bool
	inClosure    bool            // unit added by the dependency closure of the property being checked: all its obligations count
	calledKeys   map[string]bool // contracts of /repo functions applied at call sites of this unit (membership audit)
	errs         []string
	lets         map[string]*Val
	uses         map[string]bool
	notes        []string
	ghost0       map[string]string
	pointCount   map[ssa.Instruction]int
	facts        map[string]string // labelled ghost assertions (guarded formulas)
	boolDef      map[int]bool      // prefix lines kept in sliced contexts: definitions and type-range facts
	marks        map[string]int    // named positions in the prefix
	ghostSorts   map[string]string
	hoisted      map[ssa.Instruction]string
	splitCase    int
	order        []*ssa.BasicBlock
	extraIn      map[*ssa.BasicBlock][]inEdge
	unrolledBody map[*ssa.BasicBlock]bool
	inUnroll     map[*ssa.BasicBlock]bool
	doneBlocks   map[*ssa.BasicBlock]bool
	unrollTag    string
	usedNames    map[string]bool
	keepPhi      map[*ssa.Phi]bool
	keepPhiLit   map[*ssa.Phi]string // literal value of a constant-step counter in the current unrolled iteration
}

func (g *Gen) ghostSortOf(name string) string {
	if s, ok := g.ghostSorts[name]; ok {
		return s
	}
	return "Int"
}

func (g *Gen) keepLine() {
	if g.boolDef == nil {
		g.boolDef = map[int]bool{}
	}
	g.boolDef[len(g.lines)] = true
}

// assumeRange emits a type-range fact (kept in sliced contexts).
func (g *Gen) assumeRange(t string, guarded bool) {
	if t == "true" || t == "" {
		return
	}
	g.keepLine()
	if guarded {
		g.emit(fmt.Sprintf("(assert (=> %s %s))", g.reach, t))
	} else {
		g.emit("(assert " + t + ")")
	}
}

func (g *Gen) use(k string) {
	if g.uses == nil {
		g.uses = map[string]bool{}
	}
	g.uses[k] = true
}

func (g *Gen) fresh(prefix string) string {
	g.ncnt++
	return fmt.Sprintf("%s!%d", sanitize(prefix), g.ncnt)
}

func sanitize(s string) string {
	r := strings.NewReplacer(" ", "_", "(", "_", ")", "_", "*", "p", "[", "_", "]", "_", ",", "_", "|", "_", "\"", "_", ";", "_", "#", "_", "/", "_")
	return r.Replace(s)
}

func (g *Gen) emit(s string) {
	if len(g.lineTag) > len(g.lines) {
		g.lineTag = g.lineTag[:len(g.lines)]
	}
	for len(g.lineTag) < len(g.lines) {
		g.lineTag = append(g.lineTag, -1)
	}
	g.lines = append(g.lines, s)
	g.lineTag = append(g.lineTag, g.effTag())
}

// tagOf: the slicing tag of a block: its index, or the header index of the outermost unrolled loop containing it
// (an unrolled loop is one node: its iterations follow each other).
func (g *Gen) tagOf(b *ssa.BasicBlock) int {
	best, size := b.Index, -1
	for h, li := range g.loops {
		if li.spec != nil && li.spec.UnrollN > 0 && li.body[b] && len(li.body) > size {
			best, size = h.Index, len(li.body)
		}
	}
	return best
}

// computeTagAnc: ancestors (reflexive) of every tag over forward edges.
func (g *Gen) computeTagAnc() {
	g.tagAnc = map[int]map[int]bool{}
	for pass := 0; pass < 3; pass++ {
		for _, b := range g.order {
			t := g.tagOf(b)
			if g.tagAnc[t] == nil {
				g.tagAnc[t] = map[int]bool{t: true}
			}
			for _, p := range b.Preds {
				pt := g.tagOf(p)
				if g.isBackEdge(p, b) && pt != t {
					continue
				}
				g.tagAnc[t][pt] = true
				for a := range g.tagAnc[pt] {
					g.tagAnc[t][a] = true
				}
			}
		}
	}
}

func (g *Gen) declare(name, sort string) { g.emit(fmt.Sprintf("(declare-const %s %s)", name, sort)) }

// def introduces a named constant equal to term.
func (g *Gen) def(prefix, sort, term string) string {
	n := g.fresh(prefix)
	g.emit(fmt.Sprintf("(declare-const %s %s)", n, sort))
	g.keepLine()
	g.emit(fmt.Sprintf("(assert (= %s %s))", n, term))
	return n
}

func (g *Gen) freshConst(prefix, sort string) string {
	n := g.fresh(prefix)
	g.declare(n, sort)
	return n
}

// assume adds a fact valid whenever the current point is reached.
func (g *Gen) assume(term string) {
	if term == "true" {
		return
	}
	g.emit(fmt.Sprintf("(assert (=> %s %s))", g.reach, term))
}

func (g *Gen) assumeAlways(term string) { g.emit(fmt.Sprintf("(assert %s)", term)) }

func (g *Gen) oblige(kind, goal string, pos token.Pos, desc string, props []string) *Obligation {
	if goal == "true" {
		return nil
	}
	k := g.kcnt[kind]
	g.kcnt[kind] = k + 1
	name := fmt.Sprintf("%s#%s%d", g.unit, kind, k)
	return g.obligeNamed(name, kind, goal, pos, desc, props)
}

func (g *Gen) obligeNamed(name, kind, goal string, pos token.Pos, desc string, props []string) *Obligation {
	if g.unrollTag != "" && !strings.Contains(name, ".u") {
		name += g.unrollTag
	}
	for g.usedNames[name] {
		name += "'"
	}
	if g.usedNames == nil {
		g.usedNames = map[string]bool{}
	}
	g.usedNames[name] = true
	o := &Obligation{Name: name, Kind: kind, Unit: g.unit, PrefixLen: len(g.lines), Tag: g.effTag(),
		Goal: fmt.Sprintf("(=> %s %s)", g.reach, goal), Desc: desc, Props: props}
	if pos.IsValid() {
		p := g.eng.fset.Position(pos)
		o.Pos = fmt.Sprintf("%s:%d", p.Filename, p.Line)
	}
	g.obls = append(g.obls, o)
	// after being checked, the fact may be used
	g.assume(goal)
	return o
}

func (g *Gen) heapSort(s string) string { return fmt.Sprintf("(Array Int (Array Int %s))", s) }

func sel2(h, o, k string) string { return fmt.Sprintf("(select (select %s %s) %s)", h, o, k) }

func store2(h, o, k, v string) string {
	return fmt.Sprintf("(store %s %s (store (select %s %s) %s %s))", h, o, h, o, k, v)
}

func addOff(off string, k int) string {
	if k == 0 {
		return off
	}
	return fmt.Sprintf("(+ %s %d)", off, k)
}

func and(xs ...string) string {
	var ys []string
	for _, x := range xs {
		if x == "true" || x == "" {
			continue
		}
		if x == "false" {
			return "false"
		}
		ys = append(ys, x)
	}
	if len(ys) == 0 {
		return "true"
	}
	if len(ys) == 1 {
		return ys[0]
	}
	return "(and " + strings.Join(ys, " ") + ")"
}

func or(xs ...string) string {
	var ys []string
	for _, x := range xs {
		if x == "false" || x == "" {
			continue
		}
		if x == "true" {
			return "true"
		}
		ys = append(ys, x)
	}
	if len(ys) == 0 {
		return "false"
	}
	if len(ys) == 1 {
		return ys[0]
	}
	return "(or " + strings.Join(ys, " ") + ")"
}

func not(x string) string {
	if x == "true" {
		return "false"
	}
	if x == "false" {
		return "true"
	}
	return "(not " + x + ")"
}

// ---------- cells <-> values ----------

func isBoolT(t types.Type) bool {
	b, ok := t.Underlying().(*types.Basic)
	return ok && b.Info()&types.IsBoolean != 0
}

func (g *Gen) isAgg(t types.Type) bool {
	if g.view.opaqueSort(t) != "" {
		return false
	}
	switch t.Underlying().(type) {
	case *types.Array, *types.Struct:
		return true
	}
	return false
}

// valFromCells builds a Val of type t from per-cell terms (cell-sort terms; bool cells are Int 0/1).
func (g *Gen) valFromCells(t types.Type, cells []string) *Val {
	if s := g.view.opaqueSort(t); s != "" {
		return &Val{T: t, Sort: s, S: cells}
	}
	switch t.Underlying().(type) {
	case *types.Basic:
		if isBoolT(t) {
			return &Val{T: t, Sort: "Bool", S: []string{fmt.Sprintf("(= %s 1)", cells[0])}}
		}
		return &Val{T: t, Sort: "Int", S: cells}
	case *types.Array, *types.Struct:
		return &Val{T: t, S: cells, Agg: true}
	case *types.Pointer:
		return &Val{T: t, Sort: "Ptr", S: cells}
	case *types.Slice:
		return &Val{T: t, Sort: "Slice", S: cells}
	}
	return &Val{T: t, Sort: "Int", S: cells}
}

// cellsOf returns per-cell terms for storing v.
func (g *Gen) cellsOf(v *Val) []string {
	if v.Sort == "Bool" {
		return []string{fmt.Sprintf("(ite %s 1 0)", v.S[0])}
	}
	return v.S
}

func (g *Gen) zeroCells(t types.Type) []string {
	cs := g.lay.Cells(t)
	out := make([]string, len(cs))
	for i, c := range cs {
		out[i] = g.zeroOf(c.Sort)
	}
	return out
}

func (g *Gen) zeroOf(sort string) string {
	switch sort {
	case "Int":
		return "0"
	case "Fp":
		return "fp_zero"
	case "Fr":
		return "fr_zero"
	case "Bytes":
		return "bytes_empty"
	}
	return "0"
}

// load reads a value of type t at (obj,off) from the given heaps.
func (g *Gen) loadFrom(heap map[string]string, t types.Type, obj, off string) *Val {
	cs := g.lay.Cells(t)
	terms := make([]string, len(cs))
	for i, c := range cs {
		terms[i] = sel2(heap[c.Sort], obj, addOff(off, i))
	}
	return g.valFromCells(t, terms)
}

func (g *Gen) cellRanges(t types.Type, terms []string) string {
	cs := g.lay.Cells(t)
	var ps []string
	for i, c := range cs {
		switch c.Role {
		case "":
			if c.Sort == "Int" && c.T != nil {
				ps = append(ps, rangePred(terms[i], c.T))
			}
		case "len", "cap", "off":
			ps = append(ps, fmt.Sprintf("(>= %s 0)", terms[i]))
		case "obj", "ref":
			ps = append(ps, fmt.Sprintf("(>= %s 0)", terms[i]))
		}
	}
	return and(ps...)
}

// storeTo writes v (type t) at (obj,off) into the current heap.
func (g *Gen) store(t types.Type, obj, off string, v *Val) {
	cs := g.lay.Cells(t)
	vals := g.cellsOf(v)
	if len(vals) != len(cs) {
		g.errs = append(g.errs, fmt.Sprintf("store: cell count mismatch for %s: %d vs %d", t, len(vals), len(cs)))
		return
	}
	bySort := map[string][]int{}
	for i, c := range cs {
		bySort[c.Sort] = append(bySort[c.Sort], i)
	}
	for _, s := range g.sorts {
		idxs, has := bySort[s]
		if !has {
			continue
		}
		row := fmt.Sprintf("(select %s %s)", g.heap[s], obj)
		for _, i := range idxs {
			row = fmt.Sprintf("(store %s %s %s)", row, addOff(off, i), vals[i])
		}
		g.heap[s] = g.def("H"+s, g.heapSort(s), fmt.Sprintf("(store %s %s %s)", g.heap[s], obj, row))
	}
}

// alloc creates a fresh zeroed object able to hold ncells (rows are total arrays anyway).
func (g *Gen) alloc(hint string) string {
	obj := g.def("obj_"+hint, "Int", g.nextobj)
	g.nextobj = g.def("nextobj", "Int", fmt.Sprintf("(+ %s 1)", obj))
	for _, s := range g.sorts {
		g.heap[s] = g.def("H"+s, g.heapSort(s), fmt.Sprintf("(store %s %s %s)", g.heap[s], obj, zeroRow(s)))
	}
	return obj
}

func zeroRow(s string) string {
	switch s {
	case "Int":
		return "((as const (Array Int Int)) 0)"
	case "Fp":
		return "fp_zero_row"
	case "Fr":
		return "fr_zero_row"
	case "Bytes":
		return "bytes_empty_row"
	}
	return "((as const (Array Int " + s + ")) 0)"
}

// hoistable: a stack-local variable whose address never becomes a stored/returned/captured value can be given
// one object per allocation site (allocated at function entry, re-zeroed at each execution): no pointer to an
// earlier instance can survive, so instances need not be distinguished.
func hoistable(al *ssa.Alloc) bool {
	var ok func(v ssa.Value, depth int) bool
	ok = func(v ssa.Value, depth int) bool {
		if depth > 6 {
			return false
		}
		refs := v.Referrers()
		if refs == nil {
			return false
		}
		for _, r := range *refs {
			switch x := r.(type) {
			case *ssa.Store:
				if x.Val == v {
					return false
				}
			case *ssa.UnOp, *ssa.DebugRef:
			case *ssa.IndexAddr:
				if !ok(x, depth+1) {
					return false
				}
			case *ssa.FieldAddr:
				if !ok(x, depth+1) {
					return false
				}
			case *ssa.Slice:
				if !ok(x, depth+1) {
					return false
				}
			case *ssa.Call:
				// passed as an argument: callee contracts cannot retain it except through their modifies clause
			default:
				return false
			}
		}
		return true
	}
	return ok(al, 0)
}

// allocAt: allocation for an Alloc instruction.
func (g *Gen) allocAt(al *ssa.Alloc) string {
	if g.hoisted == nil {
		g.hoisted = map[ssa.Instruction]string{}
	}
	if obj, ok := g.hoisted[al]; ok {
		for _, s := range g.sorts {
			g.heap[s] = g.def("H"+s, g.heapSort(s), fmt.Sprintf("(store %s %s %s)", g.heap[s], obj, zeroRow(s)))
		}
		return obj
	}
	return g.alloc(al.Comment)
}

// ---------- constants ----------

func (g *Gen) constVal(c *ssa.Const) *Val {
	t := c.Type()
	if c.Value == nil {
		// zero value / nil
		cells := g.zeroCells(t)
		return g.valFromCells(t, cells)
	}
	switch c.Value.Kind() {
	case constant.Bool:
		if constant.BoolVal(c.Value) {
			return scalar("Bool", "true", t)
		}
		return scalar("Bool", "false", t)
	case constant.Int:
		bi, _ := new(big.Int).SetString(c.Value.ExactString(), 10)
		if s := g.view.opaqueSort(t); s != "" {
			return scalar(s, g.zeroOf(s), t)
		}
		if b, ok := t.Underlying().(*types.Basic); ok && b.Info()&types.IsFloat != 0 {
			return scalar("Int", g.freshConst("float", "Int"), t)
		}
		return scalar("Int", smtInt(bi), t)
	case constant.String:
		s := constant.StringVal(c.Value)
		return scalar("Int", g.eng.stringID(s), t)
	case constant.Float:
		return scalar("Int", g.freshConst("float", "Int"), t)
	}
	g.errs = append(g.errs, fmt.Sprintf("unsupported constant %s", c))
	return scalar("Int", "0", t)
}

// ---------- value lookup ----------

func (g *Gen) val(v ssa.Value) *Val {
	if x, ok := g.vals[v]; ok {
		return x
	}
	switch x := v.(type) {
	case *ssa.Const:
		return g.constVal(x)
	case *ssa.Global:
		obj := g.globalObj(x)
		return &Val{T: x.Type(), Sort: "Ptr", S: []string{obj, "0"}}
	case *ssa.Function:
		return &Val{T: x.Type(), Sort: "Int", S: []string{g.eng.funcID(x)}, Fn: x}
	case *ssa.Builtin:
		return &Val{T: x.Type(), Sort: "Int", S: []string{"0"}}
	}
	g.errs = append(g.errs, fmt.Sprintf("value %s (%T) used before definition in %s", v.Name(), v, g.unit))
	vv := g.havocVal(v.Type(), "undef")
	g.vals[v] = vv
	return vv
}

func (g *Gen) globalObj(x *ssa.Global) string {
	if o, ok := g.globals[x]; ok {
		return o
	}
	// global objects get fixed negative-free ids: 1000000 + index, all < nextobj0
	o := g.eng.globalID(x)
	g.globals[x] = o
	// type safety: a pointer parameter of the global's own type that points into the global is the global
	gelem := x.Type().Underlying().(*types.Pointer).Elem()
	for _, pname := range sortedValKeys(g.params) {
		pv := g.params[pname]
		if pv.Tuple != nil || pv.T == nil {
			continue
		}
		if pt, ok := pv.T.Underlying().(*types.Pointer); ok && types.Identical(pt.Elem(), gelem) && len(pv.S) == 2 {
			g.keepLine()
			g.assumeRaw(fmt.Sprintf("(=> (= %s %s) (= %s 0))", pv.S[0], o, pv.S[1]))
		}
		var pelem types.Type
		switch u := pv.T.Underlying().(type) {
		case *types.Pointer:
			pelem = u.Elem()
		case *types.Slice:
			pelem = u.Elem()
		}
		if pelem != nil && g.view.opaqueSort(pv.T) == "" && !g.typeContains(gelem, pelem) && len(pv.S) >= 2 {
			g.keepLine()
			g.assumeRaw(fmt.Sprintf("(not (= %s %s))", pv.S[0], o))
		}
	}
	if x.Pkg != nil && strings.HasPrefix(x.Pkg.Pkg.Path(), repoMod) {
		elem := x.Type().Underlying().(*types.Pointer).Elem()
		func() {
			defer func() { recover() }()
			cells := g.lay.Cells(elem)
			if len(cells) > 64 {
				return
			}
			n := 0
			for off, c := range g.eng.globalConstInit(x, g.lay) {
				if off < len(cells) && cells[off].Sort == "Int" {
					g.assumeRaw(fmt.Sprintf("(= (select (select %s %s) %d) %s)", g.H0["Int"], o, off, c))
					n++
				}
			}
			if n > 0 {
				g.assumedUsed["package-level constant "+x.Pkg.Pkg.Name()+"."+x.Name()+" holds its initialiser on entry (never written outside init: C13 sweep)"] = true
			}
			// var label = []byte("..."): the slice holds exactly the bytes of the string constant
			if str, ok := g.eng.globalStringInit(x); ok && g.view.Bytes && len(cells) == 4 {
				h := g.H0["Int"]
				so, sf, sl, sc := sel2(h, o, "0"), sel2(h, o, "1"), sel2(h, o, "2"), sel2(h, o, "3")
				id := g.eng.stringID(str)
				g.use("str")
				g.assumeRaw(fmt.Sprintf("(and (>= %s 1) (< %s nextobj0) (>= %s 0) (= %s %d) (= %s %d) (= (bseq (select %s %s) %s %s) (strbytes %s)))", so, so, sf, sl, len(str), sc, len(str), h, so, sf, sl, id))
				g.assumedUsed["package-level label "+x.Pkg.Pkg.Name()+"."+x.Name()+" holds the bytes of its string initialiser on entry (never written outside init: C13 sweep)"] = true
			}
		}()
	}
	return o
}

// havocVal returns a fresh arbitrary value of type t (with type-range assumptions).
func (g *Gen) havocVal(t types.Type, hint string) *Val {
	if tup, ok := t.(*types.Tuple); ok {
		out := &Val{T: t}
		for i := 0; i < tup.Len(); i++ {
			out.Tuple = append(out.Tuple, g.havocVal(tup.At(i).Type(), fmt.Sprintf("%s_%d", hint, i)))
		}
		return out
	}
	if isBoolT(t) && g.view.opaqueSort(t) == "" {
		return scalar("Bool", g.freshConst(hint, "Bool"), t)
	}
	cs := g.lay.Cells(t)
	terms := make([]string, len(cs))
	for i, c := range cs {
		terms[i] = g.freshConst(hint, c.Sort)
	}
	g.assumeRange(g.cellRanges(t, terms), false)
	return g.valFromCells(t, terms)
}

// ---------- unit driver ----------

func (g *Gen) run() {
	fn := g.fn
	g.kcnt = map[string]int{}
	g.vals = map[ssa.Value]*Val{}
	g.states = map[*ssa.BasicBlock]*blockState{}
	g.globals = map[*ssa.Global]string{}
	g.havocCallees = map[string]bool{}
	g.assumedUsed = map[string]bool{}
	g.params = map[string]*Val{}
	g.ghost = map[string]string{}
	g.lets = map[string]*Val{}
	g.heap = map[string]string{}
	g.H0 = map[string]string{}

	for _, s := range g.sorts {
		h := "H0_" + s
		g.declare(h, g.heapSort(s))
		g.heap[s] = h
		g.H0[s] = h
	}
	g.nextobj0 = "nextobj0"
	g.declare("nextobj0", "Int")
	g.keepLine()
	g.assumeRaw(fmt.Sprintf("(> nextobj0 %d)", g.eng.maxGlobalID()))
	g.nextobj = g.nextobj0
	g.reach = "true"
	// stack locals allocated inside loops: one object per site, reserved at entry
	g.hoisted = map[ssa.Instruction]string{}
	if len(fn.Blocks) > 0 {
		g.findLoops()
		nh := 0
		for _, b := range fn.Blocks {
			if len(g.inLoop[b]) == 0 {
				continue
			}
			for _, ins := range b.Instrs {
				if al, ok := ins.(*ssa.Alloc); ok && hoistable(al) {
					obj := g.def("obj_"+al.Comment, "Int", fmt.Sprintf("(+ nextobj0 %d)", nh))
					g.hoisted[al] = obj
					nh++
				}
				// boxes of array/struct values converted to interfaces: immutable copies, one object per site
				if mi, ok := ins.(*ssa.MakeInterface); ok {
					if _, isPtr := mi.X.Type().Underlying().(*types.Pointer); !isPtr {
						switch mi.X.Type().Underlying().(type) {
						case *types.Array, *types.Struct:
							obj := g.def("obj_box", "Int", fmt.Sprintf("(+ nextobj0 %d)", nh))
							g.hoisted[mi] = obj
							nh++
						}
					}
				}
			}
		}
		if nh > 0 {
			g.nextobj = g.def("nextobj", "Int", fmt.Sprintf("(+ nextobj0 %d)", nh))
		}
	}

	// parameters and free variables
	var ptrParams []*Val
	bind := func(name string, v ssa.Value) {
		pv := g.havocVal(v.Type(), "p_"+name)
		g.vals[v] = pv
		g.params[name] = pv
		g.keepLine()
		g.assumeRaw(g.wellFormed(pv, g.nextobj0, g.ct.Nilable[name]))
		ptrParams = append(ptrParams, pv)
	}
	for _, p := range fn.Params {
		bind(p.Name(), p)
	}
	for _, fv := range fn.FreeVars {
		bind(fv.Name(), fv)
	}
	g.keepLine()
	g.assumeRaw(g.typedDisjointness(ptrParams))
	g.initGlobals()
	g.initGhost()

	// lets + requires
	env := g.entryEnv()
	if env.pkg != nil && !g.isRing() {
		// invariants of package-level state: own package always; other repo packages when this unit works in the
		// field view and its package (transitively) imports them
		var pkgPaths []string
		for pp := range g.eng.cs.PkgInv {
			pkgPaths = append(pkgPaths, pp)
		}
		sort.Strings(pkgPaths)
		for _, pp := range pkgPaths {
			invs := g.eng.cs.PkgInv[pp]
			own := pp == env.pkg.Pkg.Path()
			if own {
				invs = append(append([]*Clause{}, invs...), g.eng.cs.PkgInvLocal[pp]...)
			}
			if !own && !(g.view.Field && g.eng.imports(env.pkg, pp)) {
				continue
			}
			sub := *env
			sub.pkg = g.eng.prog.ImportedPackage(pp)
			if sub.pkg == nil {
				continue
			}
			for _, c := range invs {
				if !g.preludesCover(c.E) {
					continue // the invariant speaks a vocabulary this unit does not use
				}
				nerr, nline := len(g.errs), len(g.lines)
				t := g.specBool(&sub, c.E)
				if len(g.errs) > nerr {
					// stated for another view of the data (e.g. field view of fr.Element in a limb-view unit): not usable here
					g.errs = g.errs[:nerr]
					g.lines = g.lines[:nline]
					continue
				}
				g.assumeRaw(t)
				g.assumedUsed["package invariant (established by init, preserved because nothing writes the variable: C13 sweep): "+c.Text] = true
			}
		}
	}
	for _, l := range g.ct.Lets {
		v := g.specVal(env, l.E)
		if v != nil {
			g.lets[l.Name] = v
			env.vars[l.Name] = v
		}
	}
	g.facts = map[string]string{}
	g.marks = map[string]int{"entry": 0}
	for _, c := range g.ct.Requires {
		t := g.specBool(env, c.E)
		g.assumeRaw(t)
		g.facts[c.Name] = t
	}
	// case split: exhaustiveness is checked once (in case 0), then the case is assumed
	if len(g.ct.Split) > 0 && g.splitCase >= 0 {
		env.goal = true
		if g.splitCase == 0 {
			var cases []string
			for _, c := range g.ct.Split {
				cases = append(cases, g.specBool(env, c.E))
			}
			g.obligeNamed(g.unit+"#split.exhaustive", "split", or(cases...), fn.Pos(), "the case split covers the precondition", nil)
			g.lines = g.lines[:len(g.lines)-1]
		}
		env.goal = false
		g.assumeRaw(g.specBool(env, g.ct.Split[g.splitCase].E))
		// a case of the form  <location> == <numeral>  makes later loads of that location literal (each such load is
		// justified by its own obligation that the cell still holds the value), so that shifts, divisions and
		// remainders by it are linear
		if ce := g.ct.Split[g.splitCase].E; ce.Op == "bin" && ce.Tok == "==" && len(ce.Args) == 2 {
			lhs, rhs := ce.Args[0], ce.Args[1]
			if lhs.Op == "num" {
				lhs, rhs = rhs, lhs
			}
			if rhs.Op == "num" {
				if _, o, off, ok := g.addrOf(env, lhs); ok {
					g.cellConst = append(g.cellConst, [3]string{o, off, rhs.Tok})
				}
			}
		}
	}
	// vacuity: the precondition must be satisfiable
	cov := g.obligeNamed(g.unit+"#cover.pre", "cover", "false", fn.Pos(), "precondition is satisfiable", nil)
	cov.MustSat = true
	g.lines = g.lines[:len(g.lines)-1] // drop the assume(false) that obligeNamed added

	if len(fn.Blocks) == 0 {
		g.errs = append(g.errs, "function has no body (assembly or external): contract must be marked assumed")
		return
	}
	g.order = g.blockOrder()
	g.extraIn = map[*ssa.BasicBlock][]inEdge{}
	g.unrolledBody = map[*ssa.BasicBlock]bool{}
	g.inUnroll = map[*ssa.BasicBlock]bool{}
	g.doneBlocks = map[*ssa.BasicBlock]bool{}
	g.computeTagAnc() // before any obligation is rendered (rendering runs concurrently)
	for _, b := range g.order {
		g.dispatch(b)
	}
	for _, as := range g.ct.Ats {
		if !g.usedAts[as] {
			g.bindFail(fmt.Sprintf("ghost statement at %s %s %d: program point not found", as.PointKind, as.Callee, as.Ordinal))
		}
	}
}

func (g *Gen) assumeRaw(t string) {
	if t != "true" && t != "" {
		g.emit("(assert " + t + ")")
	}
}

// wellFormed: pointer/slice components of a parameter value denote allocated objects.
func (g *Gen) wellFormed(v *Val, nextobj string, nilable bool) string {
	if v.Tuple != nil {
		return "true"
	}
	var ps []string
	cs := g.lay.Cells(v.T)
	if len(cs) != len(v.S) {
		return "true"
	}
	_, isPtr := v.T.Underlying().(*types.Pointer)
	for i, c := range cs {
		switch c.Role {
		case "obj":
			ps = append(ps, fmt.Sprintf("(< %s %s)", v.S[i], nextobj))
			if isPtr && !nilable {
				ps = append(ps, fmt.Sprintf("(>= %s 1)", v.S[i]))
			}
		case "ref":
			// interface / map / chan / func values refer to objects that already exist
			ps = append(ps, fmt.Sprintf("(< %s %s)", v.S[i], nextobj))
		}
	}
	if _, ok := v.T.Underlying().(*types.Slice); ok {
		// nil slice has len 0; cap >= len
		ps = append(ps, fmt.Sprintf("(<= %s %s)", v.S[2], v.S[3]))
		ps = append(ps, fmt.Sprintf("(< %s 9223372036854775808)", v.S[3]))
		ps = append(ps, fmt.Sprintf("(or (>= %s 1) (= %s 0))", v.S[0], v.S[3]))
	}
	if isPtr && nilable {
		ps = append(ps, fmt.Sprintf("(=> (= %s 0) (= %s 0))", v.S[0], v.S[1]))
	}
	return and(ps...)
}

// typedDisjointness: Go's type safety: two pointers (or slices) to the same element type that
// share an object are either equal or do not overlap (offsets differ by a multiple of the size).
func (g *Gen) typedDisjointness(vs []*Val) string {
	type pe struct {
		obj, off string
		elem     types.Type
	}
	var ps []pe
	for _, v := range vs {
		if v.Tuple != nil {
			continue
		}
		switch u := v.T.Underlying().(type) {
		case *types.Pointer:
			ps = append(ps, pe{v.S[0], v.S[1], u.Elem()})
		case *types.Slice:
			ps = append(ps, pe{v.S[0], v.S[1], u.Elem()})
		}
	}
	var out []string
	for i := 0; i < len(ps); i++ {
		for j := i + 1; j < len(ps); j++ {
			if !types.Identical(ps[i].elem, ps[j].elem) {
				// different types, neither a component of the other: the cells cannot overlap
				if !g.typeContains(ps[i].elem, ps[j].elem) && !g.typeContains(ps[j].elem, ps[i].elem) {
					out = append(out, fmt.Sprintf("(not (= %s %s))", ps[i].obj, ps[j].obj))
				}
				continue
			}
			sz := g.lay.Size(ps[i].elem)
			if sz <= 1 {
				continue
			}
			out = append(out, fmt.Sprintf("(=> (= %s %s) (= (mod (- %s %s) %d) 0))", ps[i].obj, ps[j].obj, ps[i].off, ps[j].off, sz))
		}
	}
	return and(out...)
}

// typeContains: a value of type a has a component of type b (through arrays and struct fields).
func (g *Gen) typeContains(a, b types.Type) bool {
	if types.Identical(a, b) {
		return true
	}
	if g.view.opaqueSort(a) != "" {
		return false
	}
	switch u := a.Underlying().(type) {
	case *types.Array:
		return g.typeContains(u.Elem(), b)
	case *types.Struct:
		for i := 0; i < u.NumFields(); i++ {
			if g.typeContains(u.Field(i).Type(), b) {
				return true
			}
		}
	}
	return false
}

// ---------- CFG helpers ----------

func (g *Gen) findLoops() {
	g.loops = map[*ssa.BasicBlock]*loopInfo{}
	g.inLoop = map[*ssa.BasicBlock][]*loopInfo{}
	fn := g.fn
	var headers []*ssa.BasicBlock
	for _, b := range fn.Blocks {
		for _, s := range b.Succs {
			if s.Dominates(b) {
				if g.loops[s] == nil {
					g.loops[s] = &loopInfo{header: s, body: map[*ssa.BasicBlock]bool{s: true}}
					headers = append(headers, s)
				}
				// natural loop of back edge b->s
				li := g.loops[s]
				stack := []*ssa.BasicBlock{b}
				for len(stack) > 0 {
					x := stack[len(stack)-1]
					stack = stack[:len(stack)-1]
					if li.body[x] {
						continue
					}
					li.body[x] = true
					stack = append(stack, x.Preds...)
				}
			}
		}
	}
	sort.Slice(headers, func(i, j int) bool { return headers[i].Index < headers[j].Index })
	for k, h := range headers {
		li := g.loops[h]
		li.ordinal = k
		li.spec = g.ct.Loops[k]
		if li.spec == nil {
			li.spec = &LoopSpec{}
		}
	}
	for k := range g.ct.Loops {
		if k >= len(headers) {
			g.bindFail(fmt.Sprintf("contract names loop %d but the function has %d loops", k, len(headers)))
		}
	}
	for _, h := range headers {
		li := g.loops[h]
		for b := range li.body {
			g.inLoop[b] = append(g.inLoop[b], li)
		}
	}
}

func (g *Gen) bindFail(msg string) {
	g.errs = append(g.errs, "bind: "+msg)
}

func (g *Gen) isBackEdge(from, to *ssa.BasicBlock) bool { return to.Dominates(from) }

// blockOrder: reverse postorder over the CFG without back edges.
func (g *Gen) blockOrder() []*ssa.BasicBlock {
	seen := map[*ssa.BasicBlock]bool{}
	var post []*ssa.BasicBlock
	var dfs func(b *ssa.BasicBlock)
	dfs = func(b *ssa.BasicBlock) {
		seen[b] = true
		for _, s := range b.Succs {
			if !seen[s] && !g.isBackEdge(b, s) {
				dfs(s)
			}
		}
		post = append(post, b)
	}
	dfs(g.fn.Blocks[0])
	for i, j := 0, len(post)-1; i < j; i, j = i+1, j-1 {
		post[i], post[j] = post[j], post[i]
	}
	return post
}

func copyMap(m map[string]string) map[string]string {
	o := map[string]string{}
	for k, v := range m {
		o[k] = v
	}
	return o
}

// edgeCond returns the condition under which control flows p -> b (including reach of p).
func (g *Gen) edgeCond(p, b *ssa.BasicBlock) string {
	st := g.states[p]
	if st == nil {
		return "false"
	}
	var cs []string
	for i, s := range p.Succs {
		if s == b {
			cs = append(cs, st.conds[i])
		}
	}
	return and(st.reach, or(cs...))
}

// inEdge: one way control can enter a block: condition, machine state, and the values the target's phis take.
type inEdge struct {
	cond string
	st   *blockState
	phi  map[*ssa.Phi]*Val
}

// incoming builds the entry edges of block b from its processed predecessors (back edges excluded unless asked).
func (g *Gen) incoming(b *ssa.BasicBlock, back bool) []inEdge {
	var out []inEdge
	if extra, ok := g.extraIn[b]; ok && !back {
		out = append(out, extra...)
	}
	for _, p := range b.Preds {
		if g.isBackEdge(p, b) != back || g.states[p] == nil || (g.unrolledBody[p] && !back && !g.inUnroll[p]) {
			continue
		}
		e := inEdge{cond: g.def(fmt.Sprintf("edge_%d_%d", p.Index, b.Index), "Bool", g.edgeCond(p, b)), st: g.states[p], phi: map[*ssa.Phi]*Val{}}
		for _, ins := range b.Instrs {
			phi, ok := ins.(*ssa.Phi)
			if !ok {
				break
			}
			e.phi[phi] = g.val(g.phiOperand(phi, p))
		}
		out = append(out, e)
	}
	return out
}

// enterBlock sets the current state to the join of the incoming edges; returns false if the block is unreachable.
func (g *Gen) enterBlock(b *ssa.BasicBlock, ins []inEdge) bool {
	g.cur = b
	g.curTag = g.tagOf(b)
	if b.Index == 0 && len(ins) == 0 {
		g.reach = "true"
		return true
	}
	if len(ins) == 0 {
		return false
	}
	var conds []string
	var sts []*blockState
	for _, e := range ins {
		conds = append(conds, e.cond)
		sts = append(sts, e.st)
	}
	g.reach = g.def(fmt.Sprintf("reach_%d", b.Index), "Bool", or(conds...))
	g.heap = map[string]string{}
	for _, s := range g.sorts {
		s := s
		g.heap[s] = g.joinStates(sts, conds, func(st *blockState) string { return st.heap[s] }, "H"+s, g.heapSort(s))
	}
	g.nextobj = g.joinStates(sts, conds, func(st *blockState) string { return st.nextobj }, "nextobj", "Int")
	ng := map[string]string{}
	for _, k := range sortedKeys(sts[0].ghost) {
		k := k
		ng[k] = g.joinStates(sts, conds, func(st *blockState) string { return st.ghost[k] }, "gh_"+k, g.ghostSortOf(k))
	}
	g.ghost = ng
	return true
}

func (g *Gen) joinStates(sts []*blockState, conds []string, get func(*blockState) string, hint, sort string) string {
	first := get(sts[0])
	same := true
	for _, st := range sts[1:] {
		if get(st) != first {
			same = false
		}
	}
	if same {
		return first
	}
	t := get(sts[len(sts)-1])
	for i := len(sts) - 2; i >= 0; i-- {
		t = fmt.Sprintf("(ite %s %s %s)", conds[i], get(sts[i]), t)
	}
	return g.def(hint, sort, t)
}

// joinPhiEdges merges the values a phi takes along the incoming edges.
func (g *Gen) joinPhiEdges(phi *ssa.Phi, ins []inEdge) *Val {
	var vs []*Val
	var conds []string
	for _, e := range ins {
		vs = append(vs, e.phi[phi])
		conds = append(conds, e.cond)
	}
	return g.mergeVals(phi.Type(), "phi_"+phi.Name(), vs, conds)
}

func (g *Gen) mergeVals(t types.Type, hint string, vs []*Val, conds []string) *Val {
	out := &Val{T: t, Sort: vs[0].Sort, Agg: vs[0].Agg, Clos: vs[0].Clos, Fn: vs[0].Fn, Tuple: vs[0].Tuple}
	for c := range vs[0].S {
		allSame := true
		for _, v := range vs {
			if len(v.S) <= c || v.S[c] != vs[0].S[c] {
				allSame = false
			}
		}
		if allSame {
			out.S = append(out.S, vs[0].S[c])
			continue
		}
		tm := vs[len(vs)-1].S[c]
		for i := len(vs) - 2; i >= 0; i-- {
			tm = fmt.Sprintf("(ite %s %s %s)", conds[i], vs[i].S[c], tm)
		}
		srt := "Int"
		if out.Sort == "Bool" || out.Sort == "Fp" || out.Sort == "Fr" || out.Sort == "Bytes" || out.Sort == "G" {
			srt = out.Sort
		} else if out.Agg {
			srt = g.lay.Cells(t)[c].Sort
		}
		out.S = append(out.S, g.def(hint, srt, tm))
	}
	return out
}

func (g *Gen) walkBlock(b *ssa.BasicBlock) {
	g.curTag = g.tagOf(b)
	li := g.loops[b]
	ins := g.incoming(b, false)
	if !g.enterBlock(b, ins) {
		return
	}
	if b.Index != 0 || len(ins) > 0 {
		if li != nil {
			var preds []*ssa.BasicBlock
			var conds []string
			for _, p := range b.Preds {
				if !g.isBackEdge(p, b) && g.states[p] != nil {
					preds = append(preds, p)
				}
			}
			for _, e := range ins {
				conds = append(conds, e.cond)
			}
			g.loopEntryEdges(li, ins)
			_ = preds
			_ = conds
		} else {
			for _, in := range b.Instrs {
				phi, ok := in.(*ssa.Phi)
				if !ok {
					break
				}
				g.vals[phi] = g.joinPhiEdges(phi, ins)
			}
		}
	}
	for _, in := range b.Instrs {
		if _, ok := in.(*ssa.Phi); ok {
			continue
		}
		g.instr(in)
	}
}

// walkUnrolled executes a loop with a bounded number of iterations instead of an invariant: iteration k runs if the
// loop condition holds; after n iterations an unwinding obligation shows that the loop has exited. Complete (not a
// bounded stand-in) whenever that obligation is discharged.
func (g *Gen) walkUnrolled(li *loopInfo, body []*ssa.BasicBlock, n int) {
	h := li.header
	exits := map[*ssa.BasicBlock][]inEdge{}
	type hv struct {
		cond string
		vals map[ssa.Value]*Val
	}
	var headerExits []hv
	savedTag := g.unrollTag
	exitTags := map[int]bool{} // iterations from which the loop can be left: what follows the loop depends on these only
	recordExits := func(b *ssa.BasicBlock) {
		st := g.states[b]
		if st == nil || st.conds == nil {
			return
		}
		for i, s := range b.Succs {
			if li.body[s] {
				continue
			}
			if and(st.reach, st.conds[i]) == "false" {
				continue // this exit cannot be taken in this iteration (concrete counter)
			}
			if g.tagOverride >= synTagBase {
				exitTags[g.tagOverride] = true
			}
			e := inEdge{cond: g.def(fmt.Sprintf("exit_%d_%d", b.Index, s.Index), "Bool", and(st.reach, st.conds[i])), st: st, phi: map[*ssa.Phi]*Val{}}
			for _, in := range s.Instrs {
				phi, ok := in.(*ssa.Phi)
				if !ok {
					break
				}
				e.phi[phi] = g.val(g.phiOperand(phi, b))
			}
			exits[s] = append(exits[s], e)
			if b == h {
				vals := map[ssa.Value]*Val{}
				for _, in := range h.Instrs {
					if v, ok := in.(ssa.Value); ok {
						if x, known := g.vals[v]; known {
							vals[v] = x
						}
					}
				}
				headerExits = append(headerExits, hv{e.cond, vals})
			}
		}
	}
	ins := g.incoming(h, false)
	entryTag, savedOverride := g.effTag(), g.tagOverride
	var iterTags []int
	var base *cutBaseState
	for iter := 0; iter <= n; iter++ {
		g.unrollTag = fmt.Sprintf("%s.u%d", savedTag, iter)
		if !g.enterBlock(h, ins) {
			break
		}
		if len(li.spec.Inv) > 0 && iter == 0 {
			base = &cutBaseState{heap: copyMap(g.heap), nextobj: g.nextobj, reach: g.reach}
		}
		if len(li.spec.Inv) > 0 {
			// cut point: the invariant is checked, everything except constant-step counters is forgotten, and the
			// invariant is assumed: iterations are verified independently, with concrete counter values
			g.keepPhi = map[*ssa.Phi]bool{}
			for _, in := range h.Instrs {
				phi, ok := in.(*ssa.Phi)
				if !ok {
					break
				}
				constStep := true
				for i, e := range phi.Edges {
					p := h.Preds[i]
					if g.isBackEdge(p, h) {
						bo, isAdd := e.(*ssa.BinOp)
						if !isAdd || bo.X != ssa.Value(phi) {
							constStep = false
						} else if _, isC := constOf(bo.Y); !isC {
							constStep = false
						}
					} else if _, isC := constOf(e); !isC {
						constStep = false
					}
				}
				g.keepPhi[phi] = constStep
				if constStep {
					// init + iter*step, as a numeral
					var init, step *big.Int
					for i, e := range phi.Edges {
						if g.isBackEdge(h.Preds[i], h) {
							if bo, ok := e.(*ssa.BinOp); ok && bo.Op == token.ADD {
								step, _ = constOf(bo.Y)
							} else {
								step = nil
							}
						} else if c, ok := constOf(e); ok {
							init = c
						}
					}
					if init != nil && step != nil {
						if g.keepPhiLit == nil {
							g.keepPhiLit = map[*ssa.Phi]string{}
						}
						v := new(big.Int).Add(init, new(big.Int).Mul(step, big.NewInt(int64(iter))))
						g.keepPhiLit[phi] = smtInt(v)
					}
				}
			}
			thisIter := iter
			g.cutHook = func() {
				t := g.newIterTag(entryTag, g.tagOf(h))
				iterTags = append(iterTags, t)
				g.tagOverride = t
				if thisIter > 0 && base != nil {
					g.reach = base.reach
					// the state at the head of a later iteration is the loop-entry state with the loop's write set
					// havocked (the same abstraction an invariant loop uses), not a chain through earlier iterations
					g.heap = copyMap(base.heap)
					g.nextobj = base.nextobj
				}
			}
			g.loopEntryEdges(li, ins)
			g.cutHook = nil
			g.keepPhi = nil
			g.keepPhiLit = nil
		} else {
			for _, in := range h.Instrs {
				if phi, ok := in.(*ssa.Phi); ok {
					g.vals[phi] = g.joinPhiEdges(phi, ins)
				}
			}
		}
		for _, in := range h.Instrs {
			if _, ok := in.(*ssa.Phi); ok {
				continue
			}
			g.instr(in)
		}
		recordExits(h)
		if iter == n {
			// unwinding obligation: no further iteration is possible
			st := g.states[h]
			var stay []string
			for i, s := range h.Succs {
				if li.body[s] {
					stay = append(stay, st.conds[i])
				}
			}
			g.oblige("unwind", not(or(stay...)), h.Instrs[len(h.Instrs)-1].Pos(), fmt.Sprintf("loop %d exits within %d iterations (unrolling is complete)", li.ordinal, n), nil)
			break
		}
		for _, b := range body {
			// a fresh pass over the body: forget what an earlier iteration recorded for nested loops
			if b != h {
				g.doneBlocks[b] = false
				g.unrolledBody[b] = false
				delete(g.extraIn, b)
			}
		}
		for _, b := range body {
			if b == h {
				continue
			}
			if g.doneBlocks[b] {
				continue // handled as part of a nested unrolled loop in this pass
			}
			g.inUnroll[b] = true
			g.dispatch(b)
			recordExits(b)
		}
		g.inUnroll[h] = true
		ins = g.incoming(h, true)
	}
	g.unrollTag = savedTag
	g.tagOverride = savedOverride
	if savedOverride >= synTagBase {
		// the enclosing iteration continues after this loop and needs what its iterations established
		for _, t := range iterTags {
			if len(exitTags) > 0 && !exitTags[t] {
				continue
			}
			g.synAnc[savedOverride][t] = true
			for a := range g.synAnc[t] {
				if a >= synTagBase {
					g.synAnc[savedOverride][a] = true
				}
			}
		}
	}
	for _, b := range body {
		g.unrolledBody[b] = true
		g.inUnroll[b] = false
		g.doneBlocks[b] = true
	}
	for s, es := range exits {
		g.extraIn[s] = append(g.extraIn[s], es...)
	}
	// header-defined values seen after the loop: merged over the exit iterations
	if len(headerExits) > 0 {
		var conds []string
		for _, e := range headerExits {
			conds = append(conds, e.cond)
		}
		for v := range headerExits[0].vals {
			var vs []*Val
			ok := true
			for _, e := range headerExits {
				x, has := e.vals[v]
				if !has || x.Tuple != nil || len(x.S) != len(headerExits[0].vals[v].S) {
					ok = false
					break
				}
				vs = append(vs, x)
			}
			if ok {
				g.vals[v] = g.mergeVals(v.Type(), "exitval_"+v.Name(), vs, conds)
			}
		}
	}
}

// dispatch walks a block, handling unrolled loops.
func (g *Gen) dispatch(b *ssa.BasicBlock) {
	if g.doneBlocks[b] {
		return
	}
	g.curTag = g.tagOf(b)
	if li := g.loops[b]; li != nil && li.spec.UnrollN > 0 {
		var body []*ssa.BasicBlock
		for _, x := range g.order {
			if li.body[x] {
				body = append(body, x)
			}
		}
		g.walkUnrolled(li, body, li.spec.UnrollN)
		return
	}
	if g.inUnroll[b] {
		// inside an unrolled iteration: back edges are followed by the next iteration, not checked against invariants
	}
	g.walkBlock(b)
}

func (g *Gen) joinTerms(preds []*ssa.BasicBlock, conds []string, get func(*blockState) string, hint, sort string) string {
	first := get(g.states[preds[0]])
	same := true
	for _, p := range preds[1:] {
		if get(g.states[p]) != first {
			same = false
		}
	}
	if same {
		return first
	}
	t := get(g.states[preds[len(preds)-1]])
	for i := len(preds) - 2; i >= 0; i-- {
		t = fmt.Sprintf("(ite %s %s %s)", conds[i], get(g.states[preds[i]]), t)
	}
	return g.def(hint, sort, t)
}

func (g *Gen) phiOperand(phi *ssa.Phi, pred *ssa.BasicBlock) ssa.Value {
	for i, p := range phi.Block().Preds {
		if p == pred {
			return phi.Edges[i]
		}
	}
	return nil
}

func (g *Gen) joinPhi(phi *ssa.Phi, preds []*ssa.BasicBlock, conds []string) *Val {
	var vs []*Val
	for _, p := range preds {
		vs = append(vs, g.val(g.phiOperand(phi, p)))
	}
	out := &Val{T: phi.Type(), Sort: vs[0].Sort, Agg: vs[0].Agg, Clos: vs[0].Clos, Fn: vs[0].Fn}
	for c := range vs[0].S {
		t := vs[len(vs)-1].S[c]
		allSame := true
		for _, v := range vs {
			if v.S[c] != vs[0].S[c] {
				allSame = false
			}
		}
		if allSame {
			out.S = append(out.S, vs[0].S[c])
			continue
		}
		for i := len(vs) - 2; i >= 0; i-- {
			t = fmt.Sprintf("(ite %s %s %s)", conds[i], vs[i].S[c], t)
		}
		srt := "Int"
		if out.Sort == "Bool" || out.Sort == "Fp" || out.Sort == "Fr" || out.Sort == "Bytes" {
			srt = out.Sort
		} else if out.Agg {
			srt = g.lay.Cells(phi.Type())[c].Sort
		}
		out.S = append(out.S, g.def("phi_"+phi.Name(), srt, t))
	}
	return out
}

func (g *Gen) saveState(conds []string) {
	g.states[g.cur] = &blockState{reach: g.reach, heap: copyMap(g.heap), nextobj: g.nextobj, conds: conds, ghost: copyMap(g.ghost)}
}

func sortedKeys(m map[string]string) []string {
	out := make([]string, 0, len(m))
	for k := range m {
		out = append(out, k)
	}
	sort.Strings(out)
	return out
}

func sortedValKeys(m map[string]*Val) []string {
	out := make([]string, 0, len(m))
	for k := range m {
		out = append(out, k)
	}
	sort.Strings(out)
	return out
}

// preludesCover reports whether every prelude function called by e belongs to a prelude the unit's contract
// names (directly or as a dependency).
func (g *Gen) preludesCover(e *Expr) bool {
	have := map[string]bool{}
	var add func(n string)
	add = func(n string) {
		if have[n] {
			return
		}
		have[n] = true
		for _, d := range g.eng.prelude.deps[n] {
			add(d)
		}
	}
	for _, p := range g.ct.Preludes {
		add(p)
	}
	ok := true
	var walk func(x *Expr)
	walk = func(x *Expr) {
		if x == nil {
			return
		}
		if x.Op == "call" && len(x.Args) > 0 && x.Args[0].Op == "id" {
			if sig, is := g.eng.prelude.sigs[x.Args[0].Tok]; is && !have[sig.file] {
				ok = false
			}
		}
		if x.Op == "id" {
			if sig, is := g.eng.prelude.sigs[x.Tok]; is && !have[sig.file] {
				ok = false
			}
		}
		for _, a := range x.Args {
			walk(a)
		}
	}
	walk(e)
	return ok
}

func (g *Gen) effTag() int {
	if g.tagOverride != 0 {
		return g.tagOverride
	}
	return g.curTag
}

type cutBaseState struct {
	heap    map[string]string
	nextobj string
	reach   string
}

const synTagBase = 1 << 20

// newIterTag creates the tag of one unrolled iteration entered from code tagged entryTag.
func (g *Gen) newIterTag(entryTag, owner int) int {
	if g.synAnc == nil {
		g.synAnc = map[int]map[int]bool{}
		g.synOwner = map[int]int{}
		g.nextSynTag = synTagBase
	}
	if g.tagAnc == nil {
		g.computeTagAnc()
	}
	g.nextSynTag++
	t := g.nextSynTag
	anc := map[int]bool{t: true, entryTag: true}
	if entryTag >= synTagBase {
		for a := range g.synAnc[entryTag] {
			anc[a] = true
		}
	} else {
		for a := range g.tagAnc[entryTag] {
			anc[a] = true
		}
	}
	g.synAnc[t] = anc
	g.synOwner[t] = owner
	return t
}

// isAncTag: may a line tagged l be needed by an obligation tagged o?
func (g *Gen) isAncTag(l, o int) bool {
	if l < 0 || o < 0 || l == o {
		return true
	}
	if o >= synTagBase {
		return g.synAnc[o][l]
	}
	if l >= synTagBase {
		return g.tagAnc[o][g.synOwner[l]]
	}
	return g.tagAnc[o][l]
}

func (g *Gen) markUsed(as *AtStmt) {
	if g.usedAts == nil {
		g.usedAts = map[*AtStmt]bool{}
	}
	g.usedAts[as] = true
}
