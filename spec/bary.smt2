; requires: field
; Barycentric vocabulary over the domain {0..255} of Fr. Recursive spec functions are given by their defining
; equations (base case + successor case, triggered on the successor form so that they unfold one step at a time).
; Aprime_part(e,n) = prod_{j<n, j!=e} (e - j);  Aprime(e) = A'(x_e)
(declare-fun Aprime_part (Int Int) Fr)
(assert (forall ((e Int)) (! (= (Aprime_part e 0) fr_one) :pattern ((Aprime_part e 0)))))
(assert (forall ((e Int) (n Int)) (! (=> (>= n 0) (= (Aprime_part e (+ n 1))
    (ite (= n e) (Aprime_part e n) (fr_mul (Aprime_part e n) (fr_sub (fr_of_int e) (fr_of_int n))))))
  :pattern ((Aprime_part e (+ n 1))))))
(define-fun Aprime ((e Int)) Fr (Aprime_part e 256))
; Az_part(z,n) = prod_{j<n} (z - j);  Az(z) = A(z)
(declare-fun Az_part (Fr Int) Fr)
(assert (forall ((z Fr)) (! (= (Az_part z 0) fr_one) :pattern ((Az_part z 0)))))
(assert (forall ((z Fr) (n Int)) (! (=> (>= n 0) (= (Az_part z (+ n 1)) (fr_mul (Az_part z n) (fr_sub z (fr_of_int n)))))
  :pattern ((Az_part z (+ n 1))))))
(define-fun Az ((z Fr)) Fr (Az_part z 256))
; dinv(d) = 1/d for a non-zero domain difference d in [-255,255]
(define-fun dinv ((d Int)) Fr (ite (> d 0) (fr_inv (fr_of_int d)) (fr_sub fr_zero (fr_inv (fr_of_int (- d))))))
; qterm(f,k,i) = (f_i - f_k)/(i-k)
(define-fun qterm ((f (Array Int Fr)) (o Int) (len Int) (k Int) (i Int)) Fr
  (fr_mul (fr_sub (select f (+ o i)) (select f (+ o k))) (dinv (- i k))))
; dacc(f,k,n): value of quotient[k] after the first n indices: 0 - sum_{i<n, i!=k} A'(k)/A'(i) * qterm(f,k,i)
(declare-fun dacc ((Array Int Fr) Int Int Int Int) Fr)
(assert (forall ((f (Array Int Fr)) (o Int) (len Int) (k Int)) (! (= (dacc f o len k 0) fr_zero) :pattern ((dacc f o len k 0)))))
(assert (forall ((f (Array Int Fr)) (o Int) (len Int) (k Int) (n Int)) (! (=> (>= n 0) (= (dacc f o len k (+ n 1))
    (ite (= n k) (dacc f o len k n)
      (fr_sub (dacc f o len k n) (fr_mul (fr_mul (Aprime k) (fr_inv (Aprime n))) (qterm f o len k n))))))
  :pattern ((dacc f o len k (+ n 1))))))
