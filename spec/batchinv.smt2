; requires: field
; prefP(a,n) = product of the non-zero elements among a[0..n)
(declare-fun prefP ((Array Int Fr) Int Int Int) Fr)
(assert (forall ((a (Array Int Fr)) (o Int) (len Int)) (! (= (prefP a o len 0) fr_one) :pattern ((prefP a o len 0)))))
(assert (forall ((a (Array Int Fr)) (o Int) (len Int) (n Int)) (! (=> (>= n 0) (= (prefP a o len (+ n 1))
    (ite (= (select a (+ o n)) fr_zero) (prefP a o len n) (fr_mul (prefP a o len n) (select a (+ o n))))))
  :pattern ((prefP a o len (+ n 1))))))
