; requires: field curve
; benc(SP,HP,EL,eo,n): the first n 32-byte chunks of the byte row SP are the batch encodings of the first n elements: EL is the
; row of the pointer slice (two cells per pointer: object, offset), HP the point heap the pointers refer to; chunk k holds the
; canonical big-endian bytes of encxb(X_k, Y_k, Z_k) (the serialised x of element k computed through 1/Z_k).
(declare-fun benc ((Array Int Int) (Array Int (Array Int Fp)) (Array Int Int) Int Int) Bool)
(assert (forall ((SP (Array Int Int)) (HP (Array Int (Array Int Fp))) (EL (Array Int Int)) (eo Int)) (! (benc SP HP EL eo 0) :pattern ((benc SP HP EL eo 0)))))
(assert (forall ((SP (Array Int Int)) (HP (Array Int (Array Int Fp))) (EL (Array Int Int)) (eo Int) (n Int)) (! (=> (>= n 0) (= (benc SP HP EL eo (+ n 1))
    (and (benc SP HP EL eo n)
         (fpbytesAt SP (* 32 n) 32 (encxb (select (select HP (select EL (+ eo (* 2 n)))) (+ (select EL (+ eo (* 2 n) 1)) 0))
                                          (select (select HP (select EL (+ eo (* 2 n)))) (+ (select EL (+ eo (* 2 n) 1)) 1))
                                          (select (select HP (select EL (+ eo (* 2 n)))) (+ (select EL (+ eo (* 2 n) 1)) 2)))))))
  :pattern ((benc SP HP EL eo (+ n 1))))))
; benc looks only at the first 32n bytes of SP (by induction on n: spec/lemmas/C07_benc_frame.smt2)
(assert (forall ((SP (Array Int Int)) (SP2 (Array Int Int)) (HP (Array Int (Array Int Fp))) (EL (Array Int Int)) (eo Int) (n Int))
  (! (=> (forall ((j Int)) (=> (and (<= 0 j) (< j (* 32 n))) (= (select SP j) (select SP2 j)))) (= (benc SP HP EL eo n) (benc SP2 HP EL eo n)))
     :pattern ((benc SP HP EL eo n) (benc SP2 HP EL eo n)))))
; bunc(SP,HP,EL,eo,n): the first n 64-byte chunks of SP are the uncompressed encodings of the first n elements: bytes 0..31
; the canonical big-endian affine x = X/Z, bytes 32..63 the affine y = Y/Z
(declare-fun bunc ((Array Int Int) (Array Int (Array Int Fp)) (Array Int Int) Int Int) Bool)
(assert (forall ((SP (Array Int Int)) (HP (Array Int (Array Int Fp))) (EL (Array Int Int)) (eo Int)) (! (bunc SP HP EL eo 0) :pattern ((bunc SP HP EL eo 0)))))
(assert (forall ((SP (Array Int Int)) (HP (Array Int (Array Int Fp))) (EL (Array Int Int)) (eo Int) (n Int)) (! (=> (>= n 0) (= (bunc SP HP EL eo (+ n 1))
    (and (bunc SP HP EL eo n)
         (fpbytesAt SP (* 64 n) 32 (fp_mul (select (select HP (select EL (+ eo (* 2 n)))) (+ (select EL (+ eo (* 2 n) 1)) 0)) (fp_inv (select (select HP (select EL (+ eo (* 2 n)))) (+ (select EL (+ eo (* 2 n) 1)) 2)))))
         (fpbytesAt SP (+ (* 64 n) 32) 32 (fp_mul (select (select HP (select EL (+ eo (* 2 n)))) (+ (select EL (+ eo (* 2 n) 1)) 1)) (fp_inv (select (select HP (select EL (+ eo (* 2 n)))) (+ (select EL (+ eo (* 2 n) 1)) 2))))))))
  :pattern ((bunc SP HP EL eo (+ n 1))))))
(assert (forall ((SP (Array Int Int)) (SP2 (Array Int Int)) (HP (Array Int (Array Int Fp))) (EL (Array Int Int)) (eo Int) (n Int))
  (! (=> (forall ((j Int)) (=> (and (<= 0 j) (< j (* 64 n))) (= (select SP j) (select SP2 j)))) (= (bunc SP HP EL eo n) (bunc SP2 HP EL eo n)))
     :pattern ((bunc SP HP EL eo n) (bunc SP2 HP EL eo n)))))
