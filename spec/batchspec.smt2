; requires: field curve
; benc(SP,HP,EL,eo,n): the first n 32-byte chunks of the byte row SP are the batch encodings of the first n elements: EL is the
; row of the pointer slice (two cells per pointer: object, offset), HP the point heap the pointers refer to; chunk k holds the
; canonical big-endian bytes of encxb(X_k, Y_k, Z_k) (the serialised x of element k computed through 1/Z_k).
(declare-fun benc ((Array Int Int) (Array Int (Array Int Fp)) (Array Int Int) Int Int) Bool)
(assert (forall ((SP (Array Int Int)) (HP (Array Int (Array Int Fp))) (EL (Array Int Int)) (eo Int)) (! (benc SP HP EL eo 0) :pattern ((benc SP HP EL eo 0)))))
(assert (forall ((SP (Array Int Int)) (HP (Array Int (Array Int Fp))) (EL (Array Int Int)) (eo Int) (n Int)) (! (=> (>= n 0) (= (benc SP HP EL eo (+ n 1))
    (and (benc SP HP EL eo n)
         (fpbytesAt SP (* 32 n) 32 (encxb (select (select HP (select EL (+ eo (* 2 n)))) (+ (select EL (+ eo (* 2 n) 1)) 0))
                                          (select (select HP (select EL (+ eo (* 2 n)))) (+ (select EL (+ eo (* 2 n) 1)) 1))
                                          (select (select HP (select EL (+ eo (* 2 n)))) (+ (select EL (+ eo (* 2 n) 1)) 2)))))))
  :pattern ((benc SP HP EL eo (+ n 1))))))
; benc looks only at the first 32n bytes of SP (by induction on n: spec/lemmas/C07_benc_frame.smt2)
(assert (forall ((SP (Array Int Int)) (SP2 (Array Int Int)) (HP (Array Int (Array Int Fp))) (EL (Array Int Int)) (eo Int) (n Int))
  (! (=> (forall ((j Int)) (=> (and (<= 0 j) (< j (* 32 n))) (= (select SP j) (select SP2 j)))) (= (benc SP HP EL eo n) (benc SP2 HP EL eo n)))
     :pattern ((benc SP HP EL eo n) (benc SP2 HP EL eo n)))))
; bunc(SP,HP,EL,eo,n): the first n 64-byte chunks of SP are the uncompressed encodings of the first n elements: bytes 0..31
; the canonical big-endian affine x = X/Z, bytes 32..63 the affine y = Y/Z
(declare-fun bunc ((Array Int Int) (Array Int (Array Int Fp)) (Array Int Int) Int Int) Bool)
(assert (forall ((SP (Array Int Int)) (HP (Array Int (Array Int Fp))) (EL (Array Int Int)) (eo Int)) (! (bunc SP HP EL eo 0) :pattern ((bunc SP HP EL eo 0)))))
(assert (forall ((SP (Array Int Int)) (HP (Array Int (Array Int Fp))) (EL (Array Int Int)) (eo Int) (n Int)) (! (=> (>= n 0) (= (bunc SP HP EL eo (+ n 1))
    (and (bunc SP HP EL eo n)
         (fpbytesAt SP (* 64 n) 32 (fp_mul (select (select HP (select EL (+ eo (* 2 n)))) (+ (select EL (+ eo (* 2 n) 1)) 0)) (fp_inv (select (select HP (select EL (+ eo (* 2 n)))) (+ (select EL (+ eo (* 2 n) 1)) 2)))))
         (fpbytesAt SP (+ (* 64 n) 32) 32 (fp_mul (select (select HP (select EL (+ eo (* 2 n)))) (+ (select EL (+ eo (* 2 n) 1)) 1)) (fp_inv (select (select HP (select EL (+ eo (* 2 n)))) (+ (select EL (+ eo (* 2 n) 1)) 2))))))))
  :pattern ((bunc SP HP EL eo (+ n 1))))))
(assert (forall ((SP (Array Int Int)) (SP2 (Array Int Int)) (HP (Array Int (Array Int Fp))) (EL (Array Int Int)) (eo Int) (n Int))
  (! (=> (forall ((j Int)) (=> (and (<= 0 j) (< j (* 64 n))) (= (select SP j) (select SP2 j)))) (= (bunc SP HP EL eo n) (bunc SP2 HP EL eo n)))
     :pattern ((bunc SP HP EL eo n) (bunc SP2 HP EL eo n)))))
; pobj/poff: the k-th pointer (object, offset) of a pointer slice stored in row A from offset o. Declared with defining
; axioms rather than define-fun so that they are usable as e-matching triggers (arithmetic inside select is not).
(declare-fun pobj ((Array Int Int) Int Int) Int)
(declare-fun poff ((Array Int Int) Int Int) Int)
(assert (forall ((A (Array Int Int)) (o Int) (k Int)) (! (= (pobj A o k) (select A (+ o (* 2 k)))) :pattern ((pobj A o k)))))
(assert (forall ((A (Array Int Int)) (o Int) (k Int)) (! (= (poff A o k) (select A (+ (+ o (* 2 k)) 1))) :pattern ((poff A o k)))))
; bmap(HR,RES,ro,HP,EL,eo,n): for every k < n the scalar stored at the k-th result pointer (RES: row of the result pointer
; slice, HR the scalar heap) is the map-to-scalar-field value of element k: the integer of x/y (x = X, y = Y projective
; coordinates of element k in the point heap HP) reduced modulo r
(declare-fun bmap ((Array Int (Array Int Fr)) (Array Int Int) Int (Array Int (Array Int Fp)) (Array Int Int) Int Int) Bool)
(assert (forall ((HR (Array Int (Array Int Fr))) (RES (Array Int Int)) (ro Int) (HP (Array Int (Array Int Fp))) (EL (Array Int Int)) (eo Int)) (! (bmap HR RES ro HP EL eo 0) :pattern ((bmap HR RES ro HP EL eo 0)))))
(assert (forall ((HR (Array Int (Array Int Fr))) (RES (Array Int Int)) (ro Int) (HP (Array Int (Array Int Fp))) (EL (Array Int Int)) (eo Int) (n Int)) (! (=> (>= n 0) (= (bmap HR RES ro HP EL eo (+ n 1))
    (and (bmap HR RES ro HP EL eo n)
         (= (select (select HR (pobj RES ro n)) (poff RES ro n))
            (fr_of_int (mod (fp_to_int (fp_mul (select (select HP (pobj EL eo n)) (+ (poff EL eo n) 0))
                                                (fp_inv (select (select HP (pobj EL eo n)) (+ (poff EL eo n) 1))))) 13108968793781547619861935127046491459309155893440570251786403306729687672801))))))
  :pattern ((bmap HR RES ro HP EL eo (+ n 1))))))
; bmap looks only at the scalar cells the first n result pointers refer to (by induction on n: spec/lemmas/C11_bmap_frame.smt2)
(assert (forall ((HR (Array Int (Array Int Fr))) (HR2 (Array Int (Array Int Fr))) (RES (Array Int Int)) (ro Int) (HP (Array Int (Array Int Fp))) (EL (Array Int Int)) (eo Int) (n Int))
  (! (=> (forall ((k Int)) (=> (and (<= 0 k) (< k n)) (= (select (select HR (pobj RES ro k)) (poff RES ro k)) (select (select HR2 (pobj RES ro k)) (poff RES ro k)))))
         (= (bmap HR RES ro HP EL eo n) (bmap HR2 RES ro HP EL eo n)))
     :pattern ((bmap HR RES ro HP EL eo n) (bmap HR2 RES ro HP EL eo n)))))
