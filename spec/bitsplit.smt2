; requires: frpow
; Arithmetic facts about shifting by a symbolic amount (pow2 is the generator's uninterpreted 2^k with ground facts for
; 0..256): 2^(k+1) = 2*2^k, hence for e >= 0: e div 2^k = 2*(e div 2^(k+1)) + (e div 2^k) mod 2, and e div 2^k = 1 when
; 2^k <= e < 2^(k+1). True statements of integer arithmetic, stated as axioms because they are non-linear in k.
(assert (forall ((e Int) (k Int)) (! (=> (and (>= e 0) (>= k 0)) (= (div e (pow2 k)) (+ (* 2 (div e (pow2 (+ k 1)))) (mod (div e (pow2 k)) 2)))) :pattern ((div e (pow2 k))))))
(assert (forall ((e Int) (k Int)) (! (=> (and (>= k 0) (<= (pow2 k) e) (< e (* 2 (pow2 k)))) (= (div e (pow2 k)) 1)) :pattern ((div e (pow2 k))))))
(assert (forall ((k Int)) (! (=> (>= k 0) (= (pow2 (+ k 1)) (* 2 (pow2 k)))) :pattern ((pow2 (+ k 1))))))
; powers: x^a * x^b = x^(a+b), x^a * x = x^(a+1), x^1 = x
(assert (forall ((x Fr) (a Int) (b Int)) (! (=> (and (>= a 0) (>= b 0)) (= (fr_mul (frpow x a) (frpow x b)) (frpow x (+ a b)))) :pattern ((fr_mul (frpow x a) (frpow x b))))))
(assert (forall ((x Fr) (a Int)) (! (=> (>= a 0) (= (fr_mul (frpow x a) x) (frpow x (+ a 1)))) :pattern ((fr_mul (frpow x a) x)))))
(assert (forall ((x Fr)) (! (= (frpow x 1) x) :pattern ((frpow x 1)))))
