; requires: field batchspec
; zprod(HP,D,do,n): product of the Z coordinates (third cell) of the points the first n pointers of the pointer row D refer to
; (HP the point heap): the running product of Montgomery's batch inversion in banderwagon.BatchNormalize
(declare-fun zprod ((Array Int (Array Int Fp)) (Array Int Int) Int Int) Fp)
(assert (forall ((HP (Array Int (Array Int Fp))) (D (Array Int Int)) (do Int)) (! (= (zprod HP D do 0) fp_one) :pattern ((zprod HP D do 0)))))
(assert (forall ((HP (Array Int (Array Int Fp))) (D (Array Int Int)) (do Int) (n Int)) (! (=> (>= n 0) (= (zprod HP D do (+ n 1))
    (fp_mul (zprod HP D do n) (select (select HP (pobj D do n)) (+ (poff D do n) 2)))))
  :pattern ((zprod HP D do (+ n 1))))))
