; requires: field batchspec
; zprod(HP,D,do,n): product of the Z coordinates (third cell) of the points the first n pointers of the pointer row D refer to
; (HP the point heap): the running product of Montgomery's batch inversion in banderwagon.BatchNormalize
(declare-fun zprod ((Array Int (Array Int Fp)) (Array Int Int) Int Int) Fp)
(assert (forall ((HP (Array Int (Array Int Fp))) (D (Array Int Int)) (do Int)) (! (= (zprod HP D do 0) fp_one) :pattern ((zprod HP D do 0)))))
(assert (forall ((HP (Array Int (Array Int Fp))) (D (Array Int Int)) (do Int) (n Int)) (! (=> (>= n 0) (= (zprod HP D do (+ n 1))
    (fp_mul (zprod HP D do n) (select (select HP (pobj D do n)) (+ (poff D do n) 2)))))
  :pattern ((zprod HP D do (+ n 1))))))
; cell accessors with uninterpreted heads (usable as E-matching triggers; arithmetic inside select is not): element k of a
; slice of 1-, 3- or 4-cell elements starting at offset o, field d
(declare-fun c1 (Int Int) Int)
(declare-fun c3 (Int Int Int) Int)
(declare-fun c4 (Int Int Int) Int)
(assert (forall ((o Int) (k Int)) (! (= (c1 o k) (+ o k)) :pattern ((c1 o k)))))
(assert (forall ((o Int) (k Int) (d Int)) (! (= (c3 o k d) (+ o (* 3 k) d)) :pattern ((c3 o k d)))))
(assert (forall ((o Int) (k Int) (d Int)) (! (= (c4 o k d) (+ o (* 4 k) d)) :pattern ((c4 o k d)))))
; nzprod(row,o,n): product of the non-zero Z coordinates (field 2 of 4-cell points) among the first n points of the slice at
; offset o of row (Montgomery batch inversion that skips zeros: batchToExtendedPointNormalized / batchProjToAffine)
(declare-fun nzprod ((Array Int Fp) Int Int) Fp)
(assert (forall ((a (Array Int Fp)) (o Int)) (! (= (nzprod a o 0) fp_one) :pattern ((nzprod a o 0)))))
(assert (forall ((a (Array Int Fp)) (o Int) (n Int)) (! (=> (>= n 0) (= (nzprod a o (+ n 1))
    (ite (= (select a (c4 o n 2)) fp_zero) (nzprod a o n) (fp_mul (nzprod a o n) (select a (c4 o n 2))))))
  :pattern ((nzprod a o (+ n 1))))))
; the same for slices of 3-cell projective points (Z is field 2) with 2-cell affine results: batchProjToAffine
(declare-fun c2 (Int Int Int) Int)
(assert (forall ((o Int) (k Int) (d Int)) (! (= (c2 o k d) (+ o (* 2 k) d)) :pattern ((c2 o k d)))))
(declare-fun nzprod3 ((Array Int Fp) Int Int) Fp)
(assert (forall ((a (Array Int Fp)) (o Int)) (! (= (nzprod3 a o 0) fp_one) :pattern ((nzprod3 a o 0)))))
(assert (forall ((a (Array Int Fp)) (o Int) (n Int)) (! (=> (>= n 0) (= (nzprod3 a o (+ n 1))
    (ite (= (select a (c3 o n 2)) fp_zero) (nzprod3 a o n) (fp_mul (nzprod3 a o n) (select a (c3 o n 2))))))
  :pattern ((nzprod3 a o (+ n 1))))))
