; Abstract byte strings (sort Bytes) for the transcript model: concatenation, SHA-256 as an uninterpreted function.
(declare-sort Bytes 0)
(declare-const bytes_empty Bytes)
(declare-fun cat (Bytes Bytes) Bytes)
(declare-fun sha256 (Bytes) Bytes)
(declare-fun bseq ((Array Int Int) Int Int) Bytes)   ; the byte string held by n cells of a heap row from offset o
(declare-fun strbytes (Int) Bytes)                    ; the bytes of a Go string (by string id)
(declare-fun le_int (Bytes) Int)                      ; little-endian integer value of a byte string
(declare-const bytes_empty_row (Array Int Bytes))
(assert (forall ((k Int)) (! (= (select bytes_empty_row k) bytes_empty) :pattern ((select bytes_empty_row k)))))
(assert (forall ((r (Array Int Int)) (o Int)) (! (= (bseq r o 0) bytes_empty) :pattern ((bseq r o 0)))))
; 32-byte strings: constructor from the 32 byte values; bseq of 32 cells is that constructor applied to the cells
(declare-fun bytes32 (Int Int Int Int Int Int Int Int Int Int Int Int Int Int Int Int Int Int Int Int Int Int Int Int Int Int Int Int Int Int Int Int) Bytes)
(assert (forall ((r (Array Int Int)) (o Int)) (! (= (bseq r o 32) (bytes32 (select r (+ o 0)) (select r (+ o 1)) (select r (+ o 2)) (select r (+ o 3)) (select r (+ o 4)) (select r (+ o 5)) (select r (+ o 6)) (select r (+ o 7)) (select r (+ o 8)) (select r (+ o 9)) (select r (+ o 10)) (select r (+ o 11)) (select r (+ o 12)) (select r (+ o 13)) (select r (+ o 14)) (select r (+ o 15)) (select r (+ o 16)) (select r (+ o 17)) (select r (+ o 18)) (select r (+ o 19)) (select r (+ o 20)) (select r (+ o 21)) (select r (+ o 22)) (select r (+ o 23)) (select r (+ o 24)) (select r (+ o 25)) (select r (+ o 26)) (select r (+ o 27)) (select r (+ o 28)) (select r (+ o 29)) (select r (+ o 30)) (select r (+ o 31)))) :pattern ((bseq r o 32)))))
