; requires: bytes bytesint
; the little-endian integer value of 32 cells is the le_int of the byte string they hold
(assert (forall ((r (Array Int Int)) (o Int)) (! (= (LEb r o 32) (le_int (bseq r o 32))) :pattern ((LEb r o 32)))))
