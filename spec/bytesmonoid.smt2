; requires: bytes
; Monoid laws of byte-string concatenation, oriented to the right-nested normal form. Kept out of the bytes prelude:
; on long append sequences associativity re-brackets every prefix (Catalan growth), so only the units that reason about
; the internal buffer/hash-state split of a transcript include it; everything else uses left-nested appends of atoms.
(assert (forall ((a Bytes) (b Bytes) (c Bytes)) (! (= (cat (cat a b) c) (cat a (cat b c))) :pattern ((cat (cat a b) c)))))
(assert (forall ((a Bytes)) (! (= (cat bytes_empty a) a) :pattern ((cat bytes_empty a)))))
(assert (forall ((a Bytes)) (! (= (cat a bytes_empty) a) :pattern ((cat a bytes_empty)))))
