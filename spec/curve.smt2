; requires: field
; Bandersnatch / Banderwagon vocabulary over the base field Fp.
(define-fun P_MOD () Int 52435875175126190479447740508185965837690552500527637822603658699938581184513)
(declare-fun fp_legendre (Fp) Int)      ; Legendre symbol: -1, 0, 1
(declare-fun fp_lexlargest (Fp) Bool)   ; canonical representative > (p-1)/2
(declare-fun fp_issquare (Fp) Bool)     ; v = w*w for some w (0 included)
(declare-const CURVE_A Fp)              ; a = -5
(declare-const CURVE_D Fp)              ; d of gnark's GetEdwardsCurve
(assert (= CURVE_A (fp_neg (fp_of_int 5))))
(assert (forall ((x Fp)) (! (and (<= (- 1) (fp_legendre x)) (<= (fp_legendre x) 1)) :pattern ((fp_legendre x)))))
(assert (forall ((x Fp)) (! (= (= (fp_legendre x) 0) (= x fp_zero)) :pattern ((fp_legendre x)))))
; Euler: non-zero squares are exactly the elements of Legendre symbol 1
(assert (forall ((x Fp)) (! (= (fp_issquare x) (>= (fp_legendre x) 0)) :pattern ((fp_issquare x)))))
(assert (forall ((x Fp)) (! (= (fp_lexlargest x) (> (fp_to_int x) 26217937587563095239723870254092982918845276250263818911301829349969290592256)) :pattern ((fp_lexlargest x)))))
; negation
(assert (= (fp_neg fp_zero) fp_zero))
(assert (forall ((x Fp)) (! (=> (not (= x fp_zero)) (and (not (= (fp_neg x) fp_zero)) (= (fp_lexlargest (fp_neg x)) (not (fp_lexlargest x))))) :pattern ((fp_neg x)))))
(assert (forall ((x Fp)) (! (= (fp_mul (fp_neg x) (fp_neg x)) (fp_mul x x)) :pattern ((fp_mul (fp_neg x) (fp_neg x))))))
(assert (forall ((x Fp)) (! (= (fp_neg (fp_neg x)) x) :pattern ((fp_neg (fp_neg x))))))
; y^2 of the curve equation a x^2 + y^2 = 1 + d x^2 y^2, in the shape computed by computeY
(define-fun y2 ((x Fp)) Fp (fp_mul (fp_sub (fp_mul (fp_mul x x) CURVE_A) fp_one) (fp_inv (fp_sub (fp_mul (fp_mul x x) CURVE_D) fp_one))))
; Banderwagon subgroup criterion argument: 1 - a x^2
(define-fun subarg ((x Fp)) Fp (fp_sub fp_one (fp_mul (fp_mul x x) CURVE_A)))
; square roots are unique up to sign (no zero divisors)
(assert (forall ((a Fp) (b Fp)) (! (=> (= (fp_mul a a) (fp_mul b b)) (or (= a b) (= a (fp_neg b)))) :pattern ((fp_mul a a) (fp_mul b b)))))
; fp_byte(y,k): k-th byte of the canonical 32-byte big-endian encoding of y
(declare-fun fp_byte (Fp Int) Int)
(assert (forall ((y Fp) (k Int)) (! (and (<= 0 (fp_byte y k)) (< (fp_byte y k) 256)) :pattern ((fp_byte y k)))))
; lroot(v): the canonical square root of a square v (the lexicographically largest one; 0 for 0) - unique (A3)
(declare-fun lroot (Fp) Fp)
(assert (forall ((y Fp) (v Fp)) (! (=> (and (= (fp_mul y y) v) (or (fp_lexlargest y) (= y fp_zero))) (= y (lroot v))) :pattern ((fp_mul y y) (lroot v)))))
; encx(X,Y,Z): the field element serialised for the class of (X:Y:Z): affine x times the sign of affine y,
; in the shape computed by banderwagon.Element.Bytes (Z == 1 fast path, otherwise division by Z)
(define-fun encx ((X Fp) (Y Fp) (Z Fp)) Fp
  (ite (= Z fp_one) (ite (fp_lexlargest Y) X (fp_neg X))
    (ite (fp_lexlargest (fp_mul Y (fp_inv Z))) (fp_mul X (fp_inv Z)) (fp_neg (fp_mul X (fp_inv Z))))))
; encxb: the same serialised field element computed without the Z == 1 fast path (batch serialiser)
(define-fun encxb ((X Fp) (Y Fp) (Z Fp)) Fp
  (ite (fp_lexlargest (fp_mul Y (fp_inv Z))) (fp_mul X (fp_inv Z)) (fp_neg (fp_mul X (fp_inv Z)))))
; fpbytesAt(r,o,n,v): the 32 cells of row r from offset o are the canonical big-endian encoding of v
(define-fun fpbytesAt ((r (Array Int Int)) (o Int) (n Int) (v Fp)) Bool (and (= (select r (+ o 0)) (fp_byte v 0)) (= (select r (+ o 1)) (fp_byte v 1)) (= (select r (+ o 2)) (fp_byte v 2)) (= (select r (+ o 3)) (fp_byte v 3)) (= (select r (+ o 4)) (fp_byte v 4)) (= (select r (+ o 5)) (fp_byte v 5)) (= (select r (+ o 6)) (fp_byte v 6)) (= (select r (+ o 7)) (fp_byte v 7)) (= (select r (+ o 8)) (fp_byte v 8)) (= (select r (+ o 9)) (fp_byte v 9)) (= (select r (+ o 10)) (fp_byte v 10)) (= (select r (+ o 11)) (fp_byte v 11)) (= (select r (+ o 12)) (fp_byte v 12)) (= (select r (+ o 13)) (fp_byte v 13)) (= (select r (+ o 14)) (fp_byte v 14)) (= (select r (+ o 15)) (fp_byte v 15)) (= (select r (+ o 16)) (fp_byte v 16)) (= (select r (+ o 17)) (fp_byte v 17)) (= (select r (+ o 18)) (fp_byte v 18)) (= (select r (+ o 19)) (fp_byte v 19)) (= (select r (+ o 20)) (fp_byte v 20)) (= (select r (+ o 21)) (fp_byte v 21)) (= (select r (+ o 22)) (fp_byte v 22)) (= (select r (+ o 23)) (fp_byte v 23)) (= (select r (+ o 24)) (fp_byte v 24)) (= (select r (+ o 25)) (fp_byte v 25)) (= (select r (+ o 26)) (fp_byte v 26)) (= (select r (+ o 27)) (fp_byte v 27)) (= (select r (+ o 28)) (fp_byte v 28)) (= (select r (+ o 29)) (fp_byte v 29)) (= (select r (+ o 30)) (fp_byte v 30)) (= (select r (+ o 31)) (fp_byte v 31))))
; dyadic part of the table-driven square root: dyadic(z) = z lies in the subgroup of 2^32-th roots of unity;
; dyadic_sq(z) = z is a square inside that subgroup (its discrete logarithm is even)
(declare-fun dyadic (Fp) Bool)
(declare-fun dyadic_sq (Fp) Bool)
