; requires: field
; Consequences of the field axioms (commutative ring, no zero divisors, x*inv(x)=1 for x!=0), stated in the
; shapes in which the code produces them. Mathematics (A3); each is a one-line consequence of the field laws.
(assert (forall ((p Fr) (a Fr)) (! (=> (and (not (= p fr_zero)) (not (= a fr_zero))) (not (= (fr_mul p a) fr_zero))) :pattern ((fr_mul p a)))))
(assert (forall ((p Fr) (a Fr)) (! (=> (and (not (= p fr_zero)) (not (= a fr_zero))) (= (fr_mul p (fr_inv (fr_mul p a))) (fr_inv a))) :pattern ((fr_mul p (fr_inv (fr_mul p a)))))))
(assert (forall ((p Fr) (a Fr)) (! (=> (and (not (= p fr_zero)) (not (= a fr_zero))) (= (fr_mul (fr_inv (fr_mul p a)) a) (fr_inv p))) :pattern ((fr_mul (fr_inv (fr_mul p a)) a)))))
(assert (forall ((p Fp) (a Fp)) (! (=> (and (not (= p fp_zero)) (not (= a fp_zero))) (not (= (fp_mul p a) fp_zero))) :pattern ((fp_mul p a)))))
(assert (forall ((p Fp) (a Fp)) (! (=> (and (not (= p fp_zero)) (not (= a fp_zero))) (= (fp_mul p (fp_inv (fp_mul p a))) (fp_inv a))) :pattern ((fp_mul p (fp_inv (fp_mul p a)))))))
(assert (forall ((p Fp) (a Fp)) (! (=> (and (not (= p fp_zero)) (not (= a fp_zero))) (= (fp_mul (fp_inv (fp_mul p a)) a) (fp_inv p))) :pattern ((fp_mul (fp_inv (fp_mul p a)) a)))))
(assert (= (fr_inv fr_one) fr_one))
(assert (= (fp_inv fp_one) fp_one))
(assert (forall ((x Fr)) (! (= (fr_mul fr_zero x) fr_zero) :pattern ((fr_mul fr_zero x)))))
(assert (forall ((x Fr)) (! (= (fr_mul x fr_zero) fr_zero) :pattern ((fr_mul x fr_zero)))))
(assert (forall ((x Fp)) (! (= (fp_mul fp_zero x) fp_zero) :pattern ((fp_mul fp_zero x)))))
(assert (forall ((x Fp)) (! (= (fp_mul x fp_zero) fp_zero) :pattern ((fp_mul x fp_zero)))))
(assert (forall ((x Fr)) (! (= (fr_mul x fr_one) x) :pattern ((fr_mul x fr_one)))))
(assert (forall ((x Fr)) (! (= (fr_mul fr_one x) x) :pattern ((fr_mul fr_one x)))))
(assert (forall ((x Fp)) (! (= (fp_mul x fp_one) x) :pattern ((fp_mul x fp_one)))))
(assert (forall ((x Fp)) (! (= (fp_mul fp_one x) x) :pattern ((fp_mul fp_one x)))))
; square-root assembly (SqrtPrecomp): from c^2 = x*w and i^2*w = 1 follows (c*i)^2 = x. Ring identity
; (c i)^2 - x = (c^2 - x w) i^2 + x (i^2 w - 1), checked in spec/lemmas/C17_sqrt_assembly.smt2
(assert (forall ((c Fp) (i Fp) (x Fp) (w Fp)) (! (=> (and (= (fp_mul c c) (fp_mul x w)) (= (fp_mul (fp_mul i i) w) fp_one)) (= (fp_mul (fp_mul c i) (fp_mul c i)) x)) :pattern ((fp_mul (fp_mul c i) (fp_mul c i)) (fp_mul x w) (fp_mul (fp_mul i i) w)))))
