; requires: field curve
; Exponent abstraction for fixed addition chains over Fp: fp_pow(z,e) = z^e for e >= 1, with the laws the chains use,
; oriented so that a product of two powers of the same base becomes one power with the numeral sum of the exponents.
(declare-fun fp_pow (Fp Int) Fp)
(assert (forall ((z Fp)) (! (= (fp_mul z z) (fp_pow z 2)) :pattern ((fp_mul z z)))))
(assert (forall ((z Fp) (a Int)) (! (= (fp_mul (fp_pow z a) z) (fp_pow z (+ a 1))) :pattern ((fp_mul (fp_pow z a) z)))))
(assert (forall ((z Fp) (a Int)) (! (= (fp_mul z (fp_pow z a)) (fp_pow z (+ a 1))) :pattern ((fp_mul z (fp_pow z a))))))
(assert (forall ((z Fp) (a Int) (b Int)) (! (= (fp_mul (fp_pow z a) (fp_pow z b)) (fp_pow z (+ a b))) :pattern ((fp_mul (fp_pow z a) (fp_pow z b))))))
; n-fold squaring (the closure SquareEqNTimes): sqn(x,0) = x, sqn(x,n+1) = sqn(x,n)^2; on a power of z it multiplies the exponent by 2^n
(declare-fun fp_sqn (Fp Int) Fp)
(assert (forall ((x Fp)) (! (= (fp_sqn x 0) x) :pattern ((fp_sqn x 0)))))
(assert (forall ((x Fp) (n Int)) (! (=> (>= n 0) (= (fp_sqn x (+ n 1)) (fp_mul (fp_sqn x n) (fp_sqn x n)))) :pattern ((fp_sqn x (+ n 1))))))
; consequences of the equations above for the squaring counts the addition chain uses (spec/lemmas/C17_sqn_*.smt2)
(assert (forall ((z Fp) (e Int)) (! (= (fp_sqn (fp_pow z e) 2) (fp_pow z (* 4 e))) :pattern ((fp_sqn (fp_pow z e) 2)))))
(assert (forall ((z Fp) (e Int)) (! (= (fp_sqn (fp_pow z e) 3) (fp_pow z (* 8 e))) :pattern ((fp_sqn (fp_pow z e) 3)))))
(assert (forall ((z Fp) (e Int)) (! (= (fp_sqn (fp_pow z e) 5) (fp_pow z (* 32 e))) :pattern ((fp_sqn (fp_pow z e) 5)))))
(assert (forall ((z Fp) (e Int)) (! (= (fp_sqn (fp_pow z e) 6) (fp_pow z (* 64 e))) :pattern ((fp_sqn (fp_pow z e) 6)))))
(assert (forall ((z Fp) (e Int)) (! (= (fp_sqn (fp_pow z e) 7) (fp_pow z (* 128 e))) :pattern ((fp_sqn (fp_pow z e) 7)))))
(assert (forall ((z Fp) (e Int)) (! (= (fp_sqn (fp_pow z e) 8) (fp_pow z (* 256 e))) :pattern ((fp_sqn (fp_pow z e) 8)))))
(assert (forall ((z Fp) (e Int)) (! (= (fp_sqn (fp_pow z e) 9) (fp_pow z (* 512 e))) :pattern ((fp_sqn (fp_pow z e) 9)))))
(assert (forall ((z Fp) (e Int)) (! (= (fp_sqn (fp_pow z e) 10) (fp_pow z (* 1024 e))) :pattern ((fp_sqn (fp_pow z e) 10)))))
(assert (forall ((z Fp) (e Int)) (! (= (fp_sqn (fp_pow z e) 13) (fp_pow z (* 8192 e))) :pattern ((fp_sqn (fp_pow z e) 13)))))
; p - 1 = Q * 2^32 with Q odd: for z != 0, z^Q is a 2^32-th root of unity (Fermat), and it is a square in that subgroup
; exactly when z is a square (Euler's criterion: z^((p-1)/2) = (z^Q)^(2^31)) - number theory of the field (A3)
(define-fun FP_Q () Int 12208678567578594777604504606729831043093128246378069236549469339647)
(assert (forall ((z Fp)) (! (=> (not (= z fp_zero)) (and (dyadic (fp_pow z FP_Q)) (= (dyadic_sq (fp_pow z FP_Q)) (fp_issquare z)))) :pattern ((fp_pow z FP_Q)))))
