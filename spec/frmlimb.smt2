; requires: field
; Montgomery limbs of an opaque scalar cell, for a unit in the opaque view that reads z[k]: four uint64 values, and they are the
; limbs of the Montgomery one (RR = 2^256 mod r; I(limbs of One) == RR is proved for One/SetOne at limb level, the numerals are
; checked by spec/lemmas/C15_mont_one_limbs.smt2) exactly for fr_one - reduced Montgomery representations are unique (A3 bridge)
(declare-fun fr_mlimb (Fr Int) Int)
(assert (forall ((x Fr) (k Int)) (! (and (<= 0 (fr_mlimb x k)) (< (fr_mlimb x k) 18446744073709551616)) :pattern ((fr_mlimb x k)))))
(assert (forall ((x Fr)) (! (= (and (= (fr_mlimb x 0) 6347764673676886264) (= (fr_mlimb x 1) 253265890806062196) (= (fr_mlimb x 2) 11064306276430008312) (= (fr_mlimb x 3) 1739710354780652911)) (= x fr_one)) :pattern ((fr_mlimb x 0)) :pattern ((fr_mlimb x 1)) :pattern ((fr_mlimb x 2)) :pattern ((fr_mlimb x 3)))))
