; requires: field frpowdecl
; frpow(x,k) = x^k
(assert (forall ((x Fr)) (! (= (frpow x 0) fr_one) :pattern ((frpow x 0)))))
(assert (forall ((x Fr) (k Int)) (! (=> (>= k 0) (= (frpow x (+ k 1)) (fr_mul (frpow x k) x))) :pattern ((frpow x (+ k 1))))))
; the same equation read from the larger exponent, instantiated only when both powers are already present
(assert (forall ((x Fr) (k Int)) (! (=> (>= k 1) (= (frpow x k) (fr_mul (frpow x (- k 1)) x))) :pattern ((frpow x k) (frpow x (- k 1))))))
