; requires: field
; frpow(x,k) = x^k: the bare symbol, without unfolding equations - for units that only pass a fixed (numeral) exponent
; through the contract of Element.Exp and never unfold it (unfolding a 252-bit numeral exponent does not terminate)
(declare-fun frpow (Fr Int) Fr)
