; requires: field frpowdecl
; Power laws of frpow for non-negative exponents, oriented so that a product of powers of one base becomes one power with the
; numeral sum of the exponents (the shape fr.Element.Sqrt uses: w = x^e, y = x*w, b = w*y, t = b^(2^4)). They follow from
; frpow(x,0) = 1, frpow(x,k+1) = frpow(x,k)*x by induction on the exponent in a commutative ring (A3, as fp_pow in fppow.smt2).
(assert (forall ((z Fr) (a Int)) (! (=> (>= a 0) (= (fr_mul (frpow z a) z) (frpow z (+ a 1)))) :pattern ((fr_mul (frpow z a) z)))))
(assert (forall ((z Fr) (a Int)) (! (=> (>= a 0) (= (fr_mul z (frpow z a)) (frpow z (+ a 1)))) :pattern ((fr_mul z (frpow z a))))))
(assert (forall ((z Fr) (a Int) (b Int)) (! (=> (and (>= a 0) (>= b 0)) (= (fr_mul (frpow z a) (frpow z b)) (frpow z (+ a b)))) :pattern ((fr_mul (frpow z a) (frpow z b))))))
