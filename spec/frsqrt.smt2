; requires: field frmlimb
; Vocabulary and field facts (A3) for fr.Element.Sqrt (Tonelli-Shanks in the 2-Sylow subgroup of order 2^5).
; frsqn(x,n): n-fold squaring for the counts 0..5 the algorithm can reach (r <= 5)
(define-fun fr_sq ((x Fr)) Fr (fr_mul x x))
(declare-fun frsqn (Fr Int) Fr)
(assert (forall ((x Fr) (n Int)) (! (= (frsqn x n)
  (ite (<= n 0) x (ite (= n 1) (fr_sq x) (ite (= n 2) (fr_sq (fr_sq x)) (ite (= n 3) (fr_sq (fr_sq (fr_sq x)))
  (ite (= n 4) (fr_sq (fr_sq (fr_sq (fr_sq x)))) (fr_sq (fr_sq (fr_sq (fr_sq (fr_sq x))))))))))) :pattern ((frsqn x n)))))
; commutative-ring identities, oriented: (a*b)^2 = a^2*b^2, right-association of products
(assert (forall ((a Fr) (b Fr)) (! (= (fr_mul (fr_mul a b) (fr_mul a b)) (fr_mul (fr_mul a a) (fr_mul b b))) :pattern ((fr_mul (fr_mul a b) (fr_mul a b))))))
(assert (forall ((a Fr) (b Fr) (c Fr)) (! (= (fr_mul (fr_mul a b) c) (fr_mul a (fr_mul b c))) :pattern ((fr_mul (fr_mul a b) c)))))
; a field has no zero divisors: the square roots of one are +1 and -1; (-1)^2 = 1; 1*a = a
(assert (forall ((x Fr)) (! (=> (= (fr_mul x x) fr_one) (or (= x fr_one) (= x (fr_neg fr_one)))) :pattern ((fr_mul x x)))))
(assert (= (fr_mul (fr_neg fr_one) (fr_neg fr_one)) fr_one))
(assert (= (fr_mul fr_one fr_one) fr_one))
(assert (forall ((a Fr)) (! (= (fr_mul a fr_one) a) :pattern ((fr_mul a fr_one)))))
; the literal g of Sqrt (Montgomery limbs below) is nonResidue^s: an element of order exactly 2^5, i.e. g^(2^4) = -1
; (numeric fact about a constant of the code, checked by computation: pow(g,16,r) == r-1)
(assert (forall ((x Fr)) (! (=> (and (= (fr_mlimb x 0) 5415081136944170355) (= (fr_mlimb x 1) 16923187137941795325) (= (fr_mlimb x 2) 11911047149493888393) (= (fr_mlimb x 3) 436996551065533341))
   (= (fr_sq (fr_sq (fr_sq (fr_sq x)))) (fr_neg fr_one))) :pattern ((fr_mul x x)))))
