; requires: field
; Abstract Banderwagon group G (prime order r) with integer scalar action; abstraction functions from the
; coordinate representations used in the code. Group structure and the meaning of the coordinates are A3.
(declare-sort G 0)
(declare-const g_zero G)
(declare-fun g_add (G G) G)
(declare-fun g_neg (G) G)
(declare-fun g_smul (Int G) G)
(declare-fun gelP (Fp Fp Fp) G)        ; class of the projective point (X:Y:Z)
(declare-fun gelE (Fp Fp Fp Fp) G)     ; class of the extended point (X:Y:Z:T)
(declare-fun gelN (Fp Fp Fp) G)        ; class of the normalised extended point (X,Y,T), Z = 1
(declare-fun validP (Fp Fp Fp) Bool)   ; on the curve, in the prime-order subgroup, Z != 0
(declare-fun validE (Fp Fp Fp Fp) Bool)
(declare-fun validN (Fp Fp Fp) Bool)
(declare-fun ppbase (Int Int) G)       ; the base point a PrecompPoint table was built for (ghost, by the location of the PrecompPoint)
; abelian group / module laws in the orientations the proofs use
(assert (forall ((x G)) (! (= (g_add x g_zero) x) :pattern ((g_add x g_zero)))))
(assert (forall ((x G)) (! (= (g_add g_zero x) x) :pattern ((g_add g_zero x)))))
(assert (forall ((p G)) (! (= (g_smul 0 p) g_zero) :pattern ((g_smul 0 p)))))
(assert (forall ((p G)) (! (= (g_smul 1 p) p) :pattern ((g_smul 1 p)))))
; validVec(P,o,n): the n points stored in row P from offset o (three Fp cells each) are all valid. Opaque predicate:
; introduced for three-element vectors from its elements, otherwise passed along unchanged.
(declare-fun validVec ((Array Int Fp) Int Int) Bool)
(assert (forall ((P (Array Int Fp)) (o Int)) (! (=> (and (validP (select P (+ o 0)) (select P (+ o 1)) (select P (+ o 2))) (validP (select P (+ o 3)) (select P (+ o 4)) (select P (+ o 5))) (validP (select P (+ o 6)) (select P (+ o 7)) (select P (+ o 8)))) (validVec P o 3)) :pattern ((validVec P o 3)))))
(assert (forall ((P (Array Int Fp)) (o Int) (n Int)) (! (=> (forall ((k Int)) (=> (and (<= 0 k) (< k n)) (validP (select P (+ o (* 3 k) 0)) (select P (+ o (* 3 k) 1)) (select P (+ o (* 3 k) 2))))) (validVec P o n)) :pattern ((validVec P o n)))))
; the neutral element: valid points with x = 0 are the neutral class (the Banderwagon quotient identifies (0,1) and (0,-1));
; (0:1:1) is a valid representative; every multiple of the neutral element is the neutral element (A3)
(assert (forall ((X Fp) (Y Fp) (Z Fp)) (! (=> (and (validP X Y Z) (= X fp_zero)) (= (gelP X Y Z) g_zero)) :pattern ((gelP X Y Z)))))
(assert (and (validP fp_zero fp_one fp_one) (= (gelP fp_zero fp_one fp_one) g_zero)))
(assert (forall ((k Int)) (! (= (g_smul k g_zero) g_zero) :pattern ((g_smul k g_zero)))))
(assert (forall ((X Fp) (Y Fp) (Z Fp)) (! (=> (validP X Y Z) (not (and (= X fp_zero) (= Y fp_zero)))) :pattern ((validP X Y Z)))))
; extended coordinates: (X:Y:Z:T) with T = XY/Z represents the projective point (X:Y:Z); (0:1:1:0) is the neutral element (A3)
(assert (forall ((X Fp) (Y Fp) (Z Fp) (T Fp)) (! (=> (validE X Y Z T) (and (validP X Y Z) (= (gelP X Y Z) (gelE X Y Z T)))) :pattern ((gelE X Y Z T)))))
(assert (and (validE fp_zero fp_one fp_one fp_zero) (= (gelE fp_zero fp_one fp_one fp_zero) g_zero)))
