; requires: group
; Associativity and the module laws of the abstract group, kept apart from the group vocabulary: as rewriting axioms they
; re-bracket every sum they see, so only units whose proof needs them name this prelude.
(assert (forall ((x G) (y G) (z G)) (! (= (g_add (g_add x y) z) (g_add x (g_add y z))) :pattern ((g_add (g_add x y) z)))))
(assert (forall ((a Int) (b Int) (p G)) (! (= (g_add (g_smul a p) (g_smul b p)) (g_smul (+ a b) p)) :pattern ((g_add (g_smul a p) (g_smul b p))))))
(assert (forall ((a Int) (p G)) (! (= (g_neg (g_smul a p)) (g_smul (- a) p)) :pattern ((g_neg (g_smul a p))))))
