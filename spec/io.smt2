; Abstract io.Reader: a fixed byte stream rd_data(r)[0..rd_len(r)) ; reads of bytes at offsets >= rd_fail(r) fail with a
; non-EOF error (rd_fail(r) >= rd_len(r): the reader never fails). The current position is ghost state rpos(r).
(declare-fun rd_data (Int) (Array Int Int))
(declare-fun rd_len (Int) Int)
(declare-fun rd_fail (Int) Int)
(assert (forall ((r Int)) (! (>= (rd_len r) 0) :pattern ((rd_len r)))))
(assert (forall ((r Int)) (! (>= (rd_fail r) 0) :pattern ((rd_fail r)))))
(assert (forall ((r Int) (k Int)) (! (and (<= 0 (select (rd_data r) k)) (< (select (rd_data r) k) 256)) :pattern ((select (rd_data r) k)))))
; Abstract io.Writer: the wr_fail(w)-th Write call (counting from 0) fails; wcalls(w) counts calls, wlen(w) bytes accepted
(declare-fun wr_fail (Int) Int)
