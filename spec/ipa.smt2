; requires: field
; ipsum(a,b,n) = sum_{i<n} a[i]*b[i] (inner product of two rows of scalars)
(declare-fun ipsum ((Array Int Fr) Int Int (Array Int Fr) Int Int Int) Fr)
(assert (forall ((a (Array Int Fr)) (ao Int) (al Int) (b (Array Int Fr)) (bo Int) (bl Int)) (! (= (ipsum a ao al b bo bl 0) fr_zero) :pattern ((ipsum a ao al b bo bl 0)))))
(assert (forall ((a (Array Int Fr)) (ao Int) (al Int) (b (Array Int Fr)) (bo Int) (bl Int) (n Int)) (! (=> (>= n 0) (= (ipsum a ao al b bo bl (+ n 1))
    (fr_add (ipsum a ao al b bo bl n) (fr_mul (select a (+ ao n)) (select b (+ bo n))))))
  :pattern ((ipsum a ao al b bo bl (+ n 1))))))
