; the batch serialiser's encoding encxb(X,Y,Z) (always through 1/Z) equals the single-element encoding encx(X,Y,Z) (fast path for Z == 1): with 1/1 = 1 and v*1 = v
; props: C07 C19
(declare-sort Fp 0)
(declare-const fp_one Fp)
(declare-fun fp_mul (Fp Fp) Fp)
(declare-fun fp_inv (Fp) Fp)
(declare-fun fp_neg (Fp) Fp)
(declare-fun fp_lexlargest (Fp) Bool)
(assert (= (fp_inv fp_one) fp_one))
(assert (forall ((x Fp)) (= (fp_mul x fp_one) x)))
(define-fun encx ((X Fp) (Y Fp) (Z Fp)) Fp
  (ite (= Z fp_one) (ite (fp_lexlargest Y) X (fp_neg X))
    (ite (fp_lexlargest (fp_mul Y (fp_inv Z))) (fp_mul X (fp_inv Z)) (fp_neg (fp_mul X (fp_inv Z))))))
(define-fun encxb ((X Fp) (Y Fp) (Z Fp)) Fp
  (ite (fp_lexlargest (fp_mul Y (fp_inv Z))) (fp_mul X (fp_inv Z)) (fp_neg (fp_mul X (fp_inv Z)))))
(declare-const X Fp)
(declare-const Y Fp)
(declare-const Z Fp)
(assert (not (= (encx X Y Z) (encxb X Y Z))))
(check-sat)
