; the linearity lemmas of the opaque product lmul (spec/lmul.smt2) hold for lmul(a,x) = a*x: distributivity over + and -, doubling
(declare-const a Int)
(declare-const b Int)
(declare-const x Int)
(define-fun lmul ((p Int) (q Int)) Int (* p q))
(assert (not (and (= (lmul (+ a b) x) (+ (lmul a x) (lmul b x))) (= (lmul (- a b) x) (- (lmul a x) (lmul b x))) (= (lmul (* 2 a) x) (* 2 (lmul a x))))))
(check-sat)
