; the four limb numerals that Legendre/Sqrt compare against (and that the axiom on fr_mlimb in spec/field.smt2 names) are the limbs of RR = 2^256 mod r, the Montgomery representation of 1
; props: C15
(define-fun W () Int 18446744073709551616)
(define-fun R_MOD () Int 13108968793781547619861935127046491459309155893440570251786403306729687672801)
(define-fun RR () Int 10920338887063814464675503992315976178796737518116002025166357554075628257528)
(assert (not (and (= (+ 6347764673676886264 (* W 253265890806062196) (* W W 11064306276430008312) (* W W W 1739710354780652911)) RR)
                  (= (mod (* W W W W) R_MOD) RR) (< RR R_MOD))))
(check-sat)
