; (c*i)^2 - x == (c^2 - x*w)*i^2 + x*(i^2*w - 1): polynomial identity over the integers, hence valid in every commutative ring; it gives (c*i)^2 = x from c^2 = x*w and i^2*w = 1
(declare-const c Int)
(declare-const i Int)
(declare-const x Int)
(declare-const w Int)
(assert (not (= (- (* (* c i) (* c i)) x) (+ (* (- (* c c) (* x w)) (* i i)) (* x (- (* (* i i) w) 1))))))
(check-sat-using (then simplify propagate-values solve-eqs (! simplify :som true) nlsat))
