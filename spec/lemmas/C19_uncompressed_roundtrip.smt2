; decoding (SetBytesUncompressed, trusted) the output of BytesUncompressedTrusted gives an element Equal to the original: composition of the two proved postconditions; hypotheses: the meaning of fp_byte (the big-endian value of the canonical encoding of v is fp_to_int v) and the commutative-ring laws of Fp used (A3)
; prelude: field fieldlemmas curve bytesint
(declare-const X Fp)
(declare-const Y Fp)
(declare-const Z Fp)
(declare-const buf (Array Int Int))
(declare-const o Int)
; the original element is a valid representation: Z != 0, not X == Y == 0
(assert (not (= Z fp_zero)))
(assert (not (and (= X fp_zero) (= Y fp_zero))))
; postcondition of Element.BytesUncompressedTrusted (xbytes / ybytes of the contract, at row buf from offset o)
(define-fun a () Fp (fp_mul X (fp_inv Z)))
(define-fun b () Fp (fp_mul Y (fp_inv Z)))
(assert (fpbytesAt buf o 32 a))
(assert (fpbytesAt buf (+ o 32) 32 b))
; meaning of fp_byte, at the two encoded values
(assert (=> (fpbytesAt buf o 32 a) (= (BEb buf o 32) (fp_to_int a))))
(assert (=> (fpbytesAt buf (+ o 32) 32 b) (= (BEb buf (+ o 32) 32) (fp_to_int b))))
; postcondition of Element.SetBytesUncompressed(buf, trusted = true) on a 64-byte buffer
(define-fun X2 () Fp (fp_of_int (mod (BEb buf o 32) P_MOD)))
(define-fun Y2 () Fp (fp_of_int (mod (BEb buf (+ o 32) 32) P_MOD)))
; field laws used: commutativity and associativity of the product at these terms, inverse of a non-zero element is non-zero
(assert (= (fp_mul (fp_mul X (fp_inv Z)) Y) (fp_mul (fp_mul Y (fp_inv Z)) X)))
(assert (not (= (fp_inv Z) fp_zero)))
; Element.Equal(decoded, original) by its contract
(assert (not (and (not (and (= X2 fp_zero) (= Y2 fp_zero))) (not (and (= X fp_zero) (= Y fp_zero))) (= (fp_mul X2 Y) (fp_mul Y2 X)))))
(check-sat)
