; Opaque product lmul(a,x) "a times x" with explicitly applied linearity lemmas (binary extended Euclid of fr.Element.Inverse:
; keeps the proof linear - the solver never has to multiply a linear equation by a variable). Each lemma is a predicate that
; is always true and whose truth gives one equation; a ghost assertion `lm_add(A, B, X)` applies it at A, B, X.
(declare-fun lmul (Int Int) Int)
(declare-fun lm_def (Int Int) Bool)
(declare-fun lm_add (Int Int Int) Bool)
(declare-fun lm_sub (Int Int Int) Bool)
(declare-fun lm_dbl (Int Int) Bool)
(assert (forall ((a Int) (x Int)) (! (and (lm_def a x) (= (lmul a x) (* a x))) :pattern ((lm_def a x)))))
(assert (forall ((a Int) (b Int) (x Int)) (! (and (lm_add a b x) (= (lmul (+ a b) x) (+ (lmul a x) (lmul b x)))) :pattern ((lm_add a b x)))))
(assert (forall ((a Int) (b Int) (x Int)) (! (and (lm_sub a b x) (= (lmul (- a b) x) (- (lmul a x) (lmul b x)))) :pattern ((lm_sub a b x)))))
(assert (forall ((a Int) (x Int)) (! (and (lm_dbl a x) (= (lmul (* 2 a) x) (* 2 (lmul a x)))) :pattern ((lm_dbl a x)))))
