; requires: field group ipaspec bnorm
; Variable-base MSM on affine points (bandersnatch.MultiExp takes []PointAffine, two Fp cells per point).
; gelA(x,y): class of the affine point; validA: on the curve and in the prime-order subgroup. A valid projective point
; (X:Y:Z) and its affine form (X/Z, Y/Z) denote the same group element (A3: meaning of projective coordinates).
(declare-fun gelA (Fp Fp) G)
(declare-fun validA (Fp Fp) Bool)
(assert (forall ((X Fp) (Y Fp) (Z Fp)) (! (=> (validP X Y Z) (and (validA (fp_mul X (fp_inv Z)) (fp_mul Y (fp_inv Z))) (= (gelA (fp_mul X (fp_inv Z)) (fp_mul Y (fp_inv Z))) (gelP X Y Z)))) :pattern ((validP X Y Z)))))
; validAVec(A,o,n): the first n affine points of the slice at offset o of row A are valid (opaque, as validVec)
(declare-fun validAVec ((Array Int Fp) Int Int) Bool)
; gsumA(A,S,n) = sum_{k<n} S[k]*A[k] over affine points
(declare-fun gsumA ((Array Int Fp) Int Int (Array Int Fr) Int Int Int) G)
(assert (forall ((A (Array Int Fp)) (ao Int) (al Int) (S (Array Int Fr)) (so Int) (sl Int)) (! (= (gsumA A ao al S so sl 0) g_zero) :pattern ((gsumA A ao al S so sl 0)))))
(assert (forall ((A (Array Int Fp)) (ao Int) (al Int) (S (Array Int Fr)) (so Int) (sl Int) (n Int)) (! (=> (>= n 0) (= (gsumA A ao al S so sl (+ n 1)) (g_add (gsumA A ao al S so sl n) (g_smul (fr_to_int (select S (+ so n))) (gelA (select A (c2 ao n 0)) (select A (c2 ao n 1))))))) :pattern ((gsumA A ao al S so sl (+ n 1))))))
; bridge (by induction on n, spec/lemmas/C02_affine_msm_bridge.smt2, with validVec / validAVec read as "every point is valid"):
; if A holds the affine forms (X/Z, Y/Z) of the valid projective points of P, then A is a valid affine vector and the two sums agree
(assert (forall ((A (Array Int Fp)) (ao Int) (al Int) (P (Array Int Fp)) (po Int) (pl Int) (S (Array Int Fr)) (so Int) (sl Int) (n Int))
  (! (=> (and (>= n 0) (validVec P po n)
              (forall ((k Int)) (=> (and (<= 0 k) (< k n))
                 (and (= (select A (c2 ao k 0)) (fp_mul (select P (c3 po k 0)) (fp_inv (select P (c3 po k 2)))))
                      (= (select A (c2 ao k 1)) (fp_mul (select P (c3 po k 1)) (fp_inv (select P (c3 po k 2)))))))))
         (and (validAVec A ao n) (= (gsumA A ao al S so sl n) (gsum P po pl S so sl n))))
     :pattern ((gsumA A ao al S so sl n) (gsum P po pl S so sl n)))))
; the validity half of the bridge on its own (the same statement without the sums), triggered by the goal shape of a call
; precondition "validAVec(affine)" when no sum term is in sight - added for robustness: with only the two-sum trigger above
; the precondition of bandersnatch.MultiExp in Element.MultiExp was discharged by one solver configuration only
(assert (forall ((A (Array Int Fp)) (ao Int) (P (Array Int Fp)) (po Int) (n Int))
  (! (=> (and (>= n 0) (validVec P po n)
              (forall ((k Int)) (=> (and (<= 0 k) (< k n))
                 (and (= (select A (c2 ao k 0)) (fp_mul (select P (c3 po k 0)) (fp_inv (select P (c3 po k 2)))))
                      (= (select A (c2 ao k 1)) (fp_mul (select P (c3 po k 1)) (fp_inv (select P (c3 po k 2)))))))))
         (validAVec A ao n))
     :pattern ((validAVec A ao n) (validVec P po n)))))
