; requires: frint field group
; msum(o,f,S,so,sl,n) = sum_{i<n} value(S_i) * base_i, where S is a row of scalars given as four Montgomery limbs each,
; value(S_i) = fval(I(limbs)) is the integer the limbs represent, and base_i = ppbase(o, f + 5*i) is the point the i-th
; precomputed table of the MSMPrecomp located at (o,f) was built for (a PrecompPoint occupies five cells)
(declare-fun msum (Int Int (Array Int Int) Int Int Int) G)
(assert (forall ((o Int) (f Int) (S (Array Int Int)) (so Int) (sl Int)) (! (= (msum o f S so sl 0) g_zero) :pattern ((msum o f S so sl 0)))))
(assert (forall ((o Int) (f Int) (S (Array Int Int)) (so Int) (sl Int) (n Int)) (! (=> (>= n 0) (= (msum o f S so sl (+ n 1)) (g_add (msum o f S so sl n) (g_smul (fval (I (select S (+ so (* 4 n))) (select S (+ so (* 4 n) 1)) (select S (+ so (* 4 n) 2)) (select S (+ so (* 4 n) 3)))) (ppbase o (+ f (* 5 n))))))) :pattern ((msum o f S so sl (+ n 1))))))
