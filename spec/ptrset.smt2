; Sets of pointers and pointer-indexed integer maps (ghost state of the map model, rule M1). A pointer is (object, offset).
(declare-const pset_empty (Array Int (Array Int Bool)))
(assert (forall ((o Int) (c Int)) (! (not (select (select pset_empty o) c)) :pattern ((select (select pset_empty o) c)))))
(define-fun pin ((S (Array Int (Array Int Bool))) (o Int) (c Int)) Bool (select (select S o) c))
(declare-const pidx_zero (Array Int (Array Int Int)))
(define-fun pidx ((I (Array Int (Array Int Int))) (o Int) (c Int)) Int (select (select I o) c))
(define-fun pidx_set ((I (Array Int (Array Int Int))) (o Int) (c Int) (v Int)) (Array Int (Array Int Int)) (store I o (store (select I o) c v)))
