; requires: field group
; Explicitly applied consequences of the meaning of validVec(P,o,n) ("the n points stored in row P from offset o are all
; valid"): each lemma is a predicate that is always true and whose truth gives one implication; a ghost assertion applies it.
(declare-fun vv_split ((Array Int Fp) Int Int Int) Bool)
(declare-fun vv_elem ((Array Int Fp) Int Int Int) Bool)
(assert (forall ((P (Array Int Fp)) (o Int) (n Int) (m Int)) (! (and (vv_split P o n m)
   (=> (and (validVec P o n) (<= 0 m) (<= m n)) (and (validVec P o m) (validVec P (+ o (* 3 m)) (- n m))))) :pattern ((vv_split P o n m)))))
(assert (forall ((P (Array Int Fp)) (o Int) (n Int) (k Int)) (! (and (vv_elem P o n k)
   (=> (and (validVec P o n) (<= 0 k) (< k n)) (validP (select P (+ o (* 3 k) 0)) (select P (+ o (* 3 k) 1)) (select P (+ o (* 3 k) 2))))) :pattern ((vv_elem P o n k)))))
; two-element vectors from their elements
(assert (forall ((P (Array Int Fp)) (o Int)) (! (=> (and (validP (select P (+ o 0)) (select P (+ o 1)) (select P (+ o 2))) (validP (select P (+ o 3)) (select P (+ o 4)) (select P (+ o 5)))) (validVec P o 2)) :pattern ((validVec P o 2)))))
