; requires: field curve
; Content of a serialised vector of points in an output byte row. penc(SP,base,P,po,pl,n): the n 32-byte chunks of SP from
; offset base are the compressed encodings (canonical big-endian bytes of encx) of the first n points of the point vector
; (P,po) (three Fp cells per point).
(declare-fun penc ((Array Int Int) Int (Array Int Fp) Int Int Int) Bool)
(assert (forall ((SP (Array Int Int)) (base Int) (P (Array Int Fp)) (po Int) (pl Int)) (! (penc SP base P po pl 0) :pattern ((penc SP base P po pl 0)))))
(assert (forall ((SP (Array Int Int)) (base Int) (P (Array Int Fp)) (po Int) (pl Int) (n Int)) (! (=> (>= n 0) (= (penc SP base P po pl (+ n 1))
    (and (penc SP base P po pl n)
         (fpbytesAt SP (+ base (* 32 n)) 32 (encx (select P (+ po (* 3 n) 0)) (select P (+ po (* 3 n) 1)) (select P (+ po (* 3 n) 2)))))))
  :pattern ((penc SP base P po pl (+ n 1))))))
; penc looks only at the bytes base .. base+32n of SP (by induction on n: spec/lemmas/C10_penc_frame.smt2)
(assert (forall ((SP (Array Int Int)) (SP2 (Array Int Int)) (base Int) (P (Array Int Fp)) (po Int) (pl Int) (n Int))
  (! (=> (forall ((j Int)) (=> (and (<= base j) (< j (+ base (* 32 n)))) (= (select SP j) (select SP2 j)))) (= (penc SP base P po pl n) (penc SP2 base P po pl n)))
     :pattern ((penc SP base P po pl n) (penc SP2 base P po pl n)))))
; frleAt(SP,o,s): the 32 bytes of SP from offset o are the canonical little-endian encoding of the scalar s
(define-fun frleAt ((r (Array Int Int)) (o Int) (s Fr)) Bool (and (= (select r (+ o 0)) (fr_lebyte s 0)) (= (select r (+ o 1)) (fr_lebyte s 1)) (= (select r (+ o 2)) (fr_lebyte s 2)) (= (select r (+ o 3)) (fr_lebyte s 3)) (= (select r (+ o 4)) (fr_lebyte s 4)) (= (select r (+ o 5)) (fr_lebyte s 5)) (= (select r (+ o 6)) (fr_lebyte s 6)) (= (select r (+ o 7)) (fr_lebyte s 7)) (= (select r (+ o 8)) (fr_lebyte s 8)) (= (select r (+ o 9)) (fr_lebyte s 9)) (= (select r (+ o 10)) (fr_lebyte s 10)) (= (select r (+ o 11)) (fr_lebyte s 11)) (= (select r (+ o 12)) (fr_lebyte s 12)) (= (select r (+ o 13)) (fr_lebyte s 13)) (= (select r (+ o 14)) (fr_lebyte s 14)) (= (select r (+ o 15)) (fr_lebyte s 15)) (= (select r (+ o 16)) (fr_lebyte s 16)) (= (select r (+ o 17)) (fr_lebyte s 17)) (= (select r (+ o 18)) (fr_lebyte s 18)) (= (select r (+ o 19)) (fr_lebyte s 19)) (= (select r (+ o 20)) (fr_lebyte s 20)) (= (select r (+ o 21)) (fr_lebyte s 21)) (= (select r (+ o 22)) (fr_lebyte s 22)) (= (select r (+ o 23)) (fr_lebyte s 23)) (= (select r (+ o 24)) (fr_lebyte s 24)) (= (select r (+ o 25)) (fr_lebyte s 25)) (= (select r (+ o 26)) (fr_lebyte s 26)) (= (select r (+ o 27)) (fr_lebyte s 27)) (= (select r (+ o 28)) (fr_lebyte s 28)) (= (select r (+ o 29)) (fr_lebyte s 29)) (= (select r (+ o 30)) (fr_lebyte s 30)) (= (select r (+ o 31)) (fr_lebyte s 31))))
