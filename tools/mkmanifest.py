#!/usr/bin/env python3
"""Regenerates /verif/MANIFEST.json from the table below (claimed properties) and properties.jsonl."""
import json, subprocess
props=[json.loads(l) for l in open('/verif/properties.jsonl')]
claimed = {
 # id: (level text, level note, design ref, technique)
 "C15": ("Deductive proof, for all inputs and all aliasing of receiver/operands, of limb-level contracts on the real Go code of bandersnatch/fr: Montgomery multiplication (CIOS) and reduction, add/sub/neg/double/reduce, the small-constant multiplications, butterfly, comparison helpers and the exported wrappers; every obligation (postconditions, ghost round identities, index/nil safety, frame) is generated from go/ssa of the current tree and discharged by z3/cvc5.",
         "Assumed: amd64 assembly entry points satisfy the contracts proved for their portable Go counterparts (A5); math/bits contracts (A4); Inverse and Sqrt are bounded stand-ins, not proved; generator and solvers (A1, A2).",
         "DESIGN.md §8 C15", "contract-based deductive verification: weakest-precondition VCs over go/ssa, discharged by z3/cvc5"),
 "C16": ("Deductive proof of byte-array <-> integer contracts on the real code: Bytes/BytesLE produce the big/little-endian encoding of the represented value; SetBytes, SetBytesLE, SetBigInt reduce the integer value of any byte string modulo r; SetBytesLECanonical succeeds exactly when the value is < r; no decoder writes the caller's slice (frame obligations); round trips and 'decode twice gives the same scalar' are proved as lemma functions over those contracts.",
         "Assumed: math/big.Int, sync.Pool, encoding/binary contracts (A4); fromMont/mul assembly (A5); lemma L1 (big-endian value of a reversed string = little-endian value); generator and solvers.",
         "DESIGN.md §8 C16", "contract-based deductive verification: weakest-precondition VCs over go/ssa, discharged by z3/cvc5"),
 "C20": ("Deductive proof for all n >= 0 and all worker limits m >= 1 (NumCPU symbolic >= 1): loop invariant over the ghost coverage frontier shows the ranges handed to the goroutines are contiguous, disjoint, non-empty, within [0,n) and end at n; at most min(n,m) invocations; fork/join ghost protocol (rule R1) shows every goroutine calls the work function exactly once with its captured range, then Done once, that Wait is reached with counter == spawned, and that captured variables are not written after the go statement.",
         "Assumed: sync.WaitGroup counter semantics and runtime.NumCPU() >= 1 (A4), soundness of the fork/join rule for the Go memory model (A6), work function cannot reach Execute's locals; interleavings are not enumerated.",
         "DESIGN.md §8 C20", "contract-based deductive verification: loop invariants + fork/join ghost protocol over go/ssa, discharged by z3/cvc5"),
 "C18": ("Deductive proof, for all inputs, of code == formula on the real barycentric code: every one of the 512+510 table entries equals its defining product / inverse (quantified loop invariants), q_i = (f_i - f_k)/(i-k) with the correct sign for every index distance, q_k = -sum A'(k)/A'(i) q_i, L_i(z) = A(z)/(A'(x_i)(z - x_i)) through batch inversion (itself proved), index safety of every table access.",
         "Assumed: that these formulas are the Lagrange / polynomial-quotient identities is mathematics (L9, L10), not re-proved; field-view contracts of fr arithmetic are the images of the limb-level contracts proved in package fr (A3); Inverse at limb level is a bounded stand-in; generator and solvers.",
         "DESIGN.md §8 C18", "contract-based deductive verification: quantified loop invariants against recursive spec functions over an abstract field, discharged by z3 (E-matching)"),
 "C06": ("Deductive proof on the real decoders that acceptance is exactly the stated predicate: err == nil <=> (length, canonical X (< p), y^2 = (a x^2 - 1)/(d x^2 - 1) is a square, Legendre(1 - a x^2) = 1, and for the uncompressed form the Y bytes are the canonical encoding of the lexicographically largest root); accepted input re-encodes to the same bytes; on error the receiver is unchanged; no panic for any length. computeY / GetPointFromX proved against the curve equation.",
         "Assumed: gnark-crypto field element methods implement F_p incl. canonical decoding and Legendre (A4); SqrtPrecomp's specification (nil iff non-square) is decided under C17; Euler criterion, uniqueness of the largest root, the subgroup criterion meaning 'order divides r' (A3); generator and solvers.",
         "DESIGN.md §8 C06", "contract-based deductive verification: acceptance-set contracts over an abstract field, discharged by z3/cvc5"),
 "C10": ("Deductive proof over a ghost reader/writer model (stream content, position, failure offset as ghost state): MultiProof.Read returns nil exactly when the stream holds exactly 576 more bytes, the reader does not fail, the 17 point chunks are valid canonical subgroup encodings and the scalar chunk is < r; IPAProof.Read likewise for 544 bytes; ReadPoint/ReadScalar proved against the decoders' contracts; any chunking a well-behaved reader may choose is covered because the contract of Read/ReadAtLeast is nondeterministic in n; Write returns an error whenever any of its Write calls fails and otherwise emits 32 bytes per field (call count and length proved).",
         "Assumed: io.ReadAtLeast / io.Reader / encoding/binary.Write contracts for well-behaved readers and writers (A4); the decoders' dependencies as in C06/C16; not proved: byte content of Write and the Write/Read round trip (only length, call count and fault propagation are), IPAProof.Equal/MultiProof.Equal.",
         "DESIGN.md §8 C10", "contract-based deductive verification with ghost stream state, discharged by z3/cvc5"),
 "C13": ("Frame obligations: (1) for every function under an explicit contract, the deductive frame obligation 'every pre-existing heap cell outside the modifies clause is unchanged at every return' (SMT, all inputs, all aliasing) - this covers configuration tables, package-level constants and every caller slice/pointee not listed; (2) for every other non-test function of /repo the default frame contract (no write rooted at a package-level variable; parameters written through must be out-parameters or on the reviewed allow-list) is decided per store/call by a syntactic root-tracing argument over go/ssa with interprocedural summaries. The only allowed input mutations are the documented ones (BatchNormalize / CreateMultiProof re-normalising commitments, in-place field helpers).",
         "Assumed: external (stdlib/gnark) methods without contract write only their receiver except the listed destination-argument methods; reflection/unsafe absent; the allow-list in sweep.go (reviewed, 9 entries); 'result is independent of preceding calls' follows only for functions whose effects are covered by these frames; generator and solvers.",
         "DESIGN.md §8 C13", "contract-based deductive verification: modifies-clause frame obligations (SMT) plus default frame contracts discharged by syntactic root tracing over go/ssa"),
 "C14": ("Deductive proof over a ghost byte-string model (abstract Bytes sort with concatenation, SHA-256 uninterpreted) that the real transcript code implements the specified hash chain: a fresh transcript holds the protocol label; DomainSep/AppendMessage/AppendScalar/AppendPoint append label then message, whatever the pending size; scalars and points are absorbed as their canonical 32-byte encodings (LE scalar, compressed point of the element's class); ChallengeScalar returns LE(SHA-256(pending || label)) mod r, resets the state and re-absorbs label || challenge. Equal call sequences give equal challenges because every postcondition is a function of the ghost state.",
         "Assumed: bytes.Buffer appends everything and never fails, hash.Hash/sha256 semantics (A4); field view of SetBytesLE/BytesLE (A3); NOT decided (no contract can): that any change of a label/message/order changes the challenge - that is collision resistance of SHA-256 plus framing, see DESIGN §10; generator and solvers.",
         "DESIGN.md §8 C14", "contract-based deductive verification with a ghost byte-string model, discharged by z3 (E-matching)"),
}
hooks=subprocess.run(['git','-C','/repo','log','--format=%H %s'],capture_output=True,text=True).stdout.strip().split('\n')
hook_commits=[l.split()[0] for l in hooks if 'verif hook' in l]
checks=[]
for p in props:
    if p['id'] in claimed:
        lt,ln,dr,tq=claimed[p['id']]
        checks.append({"property_id":p['id'],"quick_cmd":f"./check.sh {p['id']} quick","thorough_cmd":f"./check.sh {p['id']} thorough",
          "evidence_file":f"/verif/evidence/{p['id']}.json","replay_cmd_template":"cat {path}","engine":"govc",
          "level_claimed":{"category":"proof","text":lt,"design_ref":dr},"level_note":ln,"technique":tq})
na_reasons = json.load(open('/verif/tools/not_applicable.json'))
m={
 "version":1,
 "setup_cmd":"cd /verif && GOFLAGS=-mod=vendor GOPROXY=off GOSUMDB=off GOTOOLCHAIN=local go build -o bin/govc ./cmd/govc",
 "hooks":{"guard":"verif","enable":"go build -tags verif: the hook files zz_contracts_verif.go contain only a package clause and //@ contract comments and are compiled only under the tag; govc loads /repo with -tags=verif","baseline_off_cmd":"cd /repo && GOFLAGS=-mod=mod GOPROXY=off GOSUMDB=off go test -vet=off -count=1 -timeout 25m ./...","source_commits":hook_commits,"add_only":True},
 "engines":[{"name":"govc","path":"/verif/cmd/govc","serves_properties":sorted(claimed),"kind_free_text":"contract-based deductive verifier for Go written for this task: weakest-precondition VC generation over go/ssa of the real /repo code (loaded in place on every run), contracts as //@ comments in build-tag-guarded files, obligations discharged by z3 5.1/z3 4.8/cvc5 1.0"}],
 "checks":checks,
 "notes":"see DESIGN.md; known findings in known_findings.txt",
 "not_applicable":[{"property_id":p["id"],"reason":na_reasons.get(p["id"],"contracts for this property not yet brought to a discharging state (see DESIGN.md §12 withdrawal rule)")} for p in props if p['id'] not in claimed]
}
json.dump(m,open('/verif/MANIFEST.json','w'),indent=1)
print("claimed:",sorted(claimed))
