#!/bin/sh
# quick regression over every property that has units: prints one summary line per property
cd /verif && go build -o bin/govc ./cmd/govc || exit 2
rc=0
for p in ${@:-C02 C04 C05 C06 C07 C08 C10 C11 C13 C14 C15 C16 C17 C18 C19 C20}; do
  out=$(./bin/govc check -prop $p -noevidence 2>&1 | tail -1)
  echo "$out"
  case "$out" in *"failed=0 "*) ;; *) rc=1;; esac
done
exit $rc
