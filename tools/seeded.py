#!/usr/bin/env python3
"""Evaluate seeded property-breaking changes (produced by independent sub-agents that saw only the property text).
usage: tools/seeded.py import <outdir-root>   copy /tmp/seedout_<id>/<k>/ into /verif/seeded/<id>/<k>/
       tools/seeded.py run [filter...]        for each /verif/seeded/<id>/<k>: confirm the demonstration (fails with the
                                              patch, passes without) and run the property's quick check on the patched tree.
Works on a scratch worktree of /repo at HEAD (outside /repo and /verif), removed afterwards. Results: seeded/<id>/<k>/result.json"""
import subprocess, sys, os, glob, shutil, tempfile, re, json
os.environ.update(GOFLAGS="-mod=mod",GOPROXY="off",GOSUMDB="off",GOTOOLCHAIN="local")
def run(cmd, **kw): return subprocess.run(cmd, shell=True, capture_output=True, text=True, **kw)
if sys.argv[1] == "import":
    for d in sorted(glob.glob("/tmp/seedout_*/*/")):
        m = re.match(r"/tmp/seedout_(C\d+)/(\d+)/", d)
        if not m or not os.path.exists(d+"patch.diff"): continue
        dst = f"/verif/seeded/{m.group(1)}/{m.group(2)}"
        os.makedirs(dst, exist_ok=True)
        for f in ("patch.diff","demo_test.go","meta.json"):
            if os.path.exists(d+f): shutil.copy(d+f, dst+"/"+f)
        print("imported", dst)
    sys.exit(0)
GOVC = os.environ.get("GOVC", "/verif/bin/govc")
only = sys.argv[2:]
base = os.path.expanduser("~/.govc-scratch"); os.makedirs(base, exist_ok=True)
wt = tempfile.mkdtemp(prefix="seed", dir=base); os.rmdir(wt)
r = run(f"git -C /repo worktree add --detach {wt} HEAD"); assert r.returncode==0, r.stderr
def reset(): run(f"git -C {wt} checkout -- . && git -C {wt} clean -fdq")
try:
    for d in sorted(glob.glob("/verif/seeded/C*/*/")):
        m = re.match(r"/verif/seeded/(C\d+)/(\d+)/", d); prop, k = m.group(1), m.group(2)
        if only and not any(o in f"{prop}/{k}" for o in only): continue
        meta = json.load(open(d+"meta.json"))
        demo = open(d+"demo_test.go").read()
        place = re.match(r"//\s*place at:\s*(\S+)", demo).group(1)
        cmd = meta["demo_cmd"]
        res = {"property": prop, "seed": k, "summary": meta.get("summary","")}
        def demo_run():
            os.makedirs(os.path.dirname(f"{wt}/{place}"), exist_ok=True); shutil.copy(d+"demo_test.go", f"{wt}/{place}")
            c = run(f"cd {wt} && timeout 900 {cmd} 2>&1 | tail -5")
            os.remove(f"{wt}/{place}")
            return ("FAIL" in c.stdout or "panic" in c.stdout), c.stdout[-400:]
        reset()
        bad0, out0 = demo_run()
        a = run(f"git -C {wt} apply {d}patch.diff")
        if a.returncode != 0:
            res["error"] = "patch does not apply: "+a.stderr.strip(); print(prop,k,res["error"]); json.dump(res, open(d+"result.json","w"), indent=1); continue
        b = run(f"cd {wt} && go build ./... 2>&1 | tail -3")
        bad1, out1 = demo_run()
        res["demo_confirmed"] = (not bad0) and bad1
        res["demo_clean_tail"] = out0.strip()[-200:]; res["demo_patched_tail"] = out1.strip()[-300:]
        c = run(f"{GOVC} check -prop {prop} -repo {wt} -noevidence -tier quick")
        failed = re.findall(r"FAILED (?:obligation )?(\S+)", c.stdout)
        res["check_exit"] = c.returncode; res["failed_obligations"] = failed[:12]
        nounits = "units=0 " in c.stdout
        if nounits: failed = []
        res["failed_obligations"] = failed[:12]
        res["caught"] = c.returncode == 1 and len(failed) > 0 and not nounits
        if nounits: res["check_note"] = "property has no check (not claimed): nothing can catch this change"
        if "no such property" in c.stdout+c.stderr or (c.returncode not in (0,1)): res["check_note"] = (c.stdout+c.stderr)[-300:]
        if not res["caught"] and not nounits:
            t = run(f"{GOVC} check -prop {prop} -repo {wt} -noevidence -tier thorough")
            bf = re.findall(r"FAILED bounded stand-in (\S+): (.*)", t.stdout)
            res["thorough_caught"] = t.returncode == 1 and len(bf) > 0
            if bf: res["thorough_by"] = bf[0][0]; res["thorough_failing_input"] = bf[0][1][:300]
        reset()
        json.dump(res, open(d+"result.json","w"), indent=1)
        print(f"{prop}/{k}: demo_confirmed={res['demo_confirmed']} caught={res['caught']} failed={failed[:3]}", flush=True)
finally:
    run(f"git -C /repo worktree remove --force {wt}"); shutil.rmtree(wt, ignore_errors=True)
