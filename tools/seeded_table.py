#!/usr/bin/env python3
"""Rewrites the seeded-change table of DESIGN.md (between the markers) from seeded/*/*/result.json and meta.json."""
import json, glob, re
rows=[]
for d in sorted(glob.glob('/verif/seeded/C*/*/')):
    m=re.match(r'/verif/seeded/(C\d+)/(\d+)/',d)
    try: res=json.load(open(d+'result.json')); meta=json.load(open(d+'meta.json'))
    except Exception: continue
    summ=meta.get('summary','').replace('|','/').replace('\n',' ')
    if len(summ)>150: summ=summ[:147]+'...'
    if res.get('error'): verdict='patch error'
    elif res.get('check_note','').startswith('property has no check'): verdict='no check (property not claimed)'
    elif res.get('caught'): verdict='caught: '+', '.join('`'+f.split('/')[-1]+'`' for f in res.get('failed_obligations',[])[:2])
    elif res.get('thorough_caught'): verdict='**missed by quick**; thorough: caught by bounded stand-in `'+res.get('thorough_by','')+'` with a failing input'
    else: verdict='**missed by quick**'+('; also missed by thorough' if 'thorough_caught' in res else '')
    rows.append(f"| {m.group(1)}/{m.group(2)} | {summ} | {'yes' if res.get('demo_confirmed') else 'NO'} | {verdict} |")
tbl="<!-- seeded-table-begin -->\n| change | what was changed (sub-agent's summary) | demo confirmed | quick check of that property |\n|---|---|---|---|\n"+"\n".join(rows)+"\n<!-- seeded-table-end -->"
p='/verif/DESIGN.md'; s=open(p).read()
if 'SEEDED-TABLE' in s: s=s.replace('SEEDED-TABLE',tbl)
else: s=re.sub(r'<!-- seeded-table-begin -->.*?<!-- seeded-table-end -->',lambda _:tbl,s,flags=re.S)
open(p,'w').write(s)
print(len(rows),'rows')
