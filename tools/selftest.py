#!/usr/bin/env python3
"""Must-fail / must-pass corpus runner.
selftest/mutants/<prop>__<name>.patch : first lines '# expect: <substring of a FAILED obligation name>' (optional), then a unified diff for /repo.
selftest/harmless/<prop>__<name>.patch: harmless refactorings that must stay green.
Each patch is applied to a scratch git worktree of /repo (outside /repo and /verif), checked with govc, and the worktree is removed."""
import subprocess, sys, os, glob, shutil, tempfile, re, json
os.environ.update(GOFLAGS="-mod=mod",GOPROXY="off",GOSUMDB="off",GOTOOLCHAIN="local")
only = sys.argv[1:] 
def run(cmd, **kw): return subprocess.run(cmd, shell=True, capture_output=True, text=True, **kw)
base = os.path.expanduser("~/.govc-scratch"); os.makedirs(base, exist_ok=True)
wt = tempfile.mkdtemp(prefix="wt", dir=base); os.rmdir(wt)
r = run(f"git -C /repo worktree add --detach {wt} HEAD"); assert r.returncode==0, r.stderr
# uncommitted contract files of /repo's working tree are part of "the current tree"
run(f"cd /repo && git diff HEAD | git -C {wt} apply --allow-empty -")
for f in run("git -C /repo ls-files --others --exclude-standard").stdout.split():
    os.makedirs(os.path.dirname(f"{wt}/{f}"), exist_ok=True); shutil.copy(f"/repo/{f}", f"{wt}/{f}")
ok = True; results=[]
try:
    for kind, want_fail in (("mutants", True), ("harmless", False)):
        for p in sorted(glob.glob(f"/verif/selftest/{kind}/*.patch")):
            name = os.path.basename(p)[:-6]; prop = name.split("__")[0]
            if only and not any(o in name for o in only): continue
            expect = None
            for line in open(p):
                if line.startswith("# expect:"): expect = line.split(":",1)[1].strip()
            a = run(f"git -C {wt} apply {p}")
            if a.returncode != 0:
                print(f"SELFTEST-ERROR {name}: patch does not apply: {a.stderr.strip()}"); ok=False; continue
            b = run(f"cd {wt} && go build ./... 2>&1 | tail -3")
            if b.stdout.strip():
                print(f"SELFTEST-ERROR {name}: mutant does not compile: {b.stdout.strip()}"); ok=False
            c = run(f"/verif/bin/govc check -prop {prop} -repo {wt} -noevidence -tier quick")
            failed = re.findall(r"FAILED (?:obligation )?(\S+)", c.stdout)
            run(f"git -C {wt} checkout -- . && git -C {wt} clean -fdq")
            run(f"cd /repo && git diff HEAD | git -C {wt} apply --allow-empty -")
            for f in run("git -C /repo ls-files --others --exclude-standard").stdout.split():
                os.makedirs(os.path.dirname(f"{wt}/{f}"), exist_ok=True); shutil.copy(f"/repo/{f}", f"{wt}/{f}")
            if want_fail:
                good = c.returncode == 1 and (expect is None or any(expect in f for f in failed))
                print(f"{'caught ' if good else 'MISSED '} {name}: exit={c.returncode} failed={failed[:4]}")
            else:
                good = c.returncode == 0
                print(f"{'green  ' if good else 'ALARM  '} {name}: exit={c.returncode} failed={failed[:4]}")
            results.append((name, good)); ok = ok and good
finally:
    run(f"git -C /repo worktree remove --force {wt}"); shutil.rmtree(wt, ignore_errors=True)
print(f"selftest: {sum(1 for _,g in results if g)}/{len(results)} as expected")
sys.exit(0 if ok else 1)
